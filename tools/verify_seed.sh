#!/bin/bash
# verify_seed.sh <dir containing patch.diff + demo.py> <label>
# Confirms in a scratch worktree of /repo HEAD (outside /repo and /verif):
#   demo passes on the clean tree, the patch applies, the suite still gives
#   85 passed / 2 failed (the baseline's always-failing test_pipe cases),
#   the demo fails with the patch.  Prints one RESULT line; removes the worktree.
set -u
src=$1; label=$2
wt=$(mktemp -d /tmp/vseed.XXXXXX)
rmdir "$wt"
git -C /repo worktree add --detach -q "$wt" HEAD || { echo "RESULT $label worktree-failed"; exit 2; }
cleanup() { git -C /repo worktree remove --force "$wt" >/dev/null 2>&1; rm -rf "$wt"; }
trap cleanup EXIT
cd "$wt"
sed "s#/tmp/wt/C[0-9]*[a-z]*#$wt#g" "$src/demo.py" > "$wt/.demo.py"
PYTHONPATH=$wt /venv/bin/python "$wt/.demo.py" >/dev/null 2>&1; clean_rc=$?
git apply "$src/patch.diff" || { echo "RESULT $label patch-does-not-apply"; exit 1; }
tests=$(/venv/bin/python -m pytest -q -p no:cacheprovider 2>&1 | tail -1)
PYTHONPATH=$wt /venv/bin/python "$wt/.demo.py" >/dev/null 2>&1; mut_rc=$?
ok=no
if [ $clean_rc -eq 0 ] && [ $mut_rc -ne 0 ] && echo "$tests" | grep -q "2 failed, 85 passed"; then ok=yes; fi
echo "RESULT $label ok=$ok demo_clean_rc=$clean_rc demo_mutant_rc=$mut_rc tests='$tests'"
