"""Frozen copy of the checking code for development sweeps.

seeded_matrix.py and mutation_sweep.py run the checks against patched scratch
worktrees.  They run them from a snapshot of /verif's code taken when the
tool starts, outside /repo and /verif, so that (a) evidence/ and replays/found
in /verif are only ever written by runs against /repo itself and (b) editing a
check while a sweep is running cannot contaminate the sweep.
"""
import os
import shutil
import tempfile

HERE = os.path.dirname(os.path.dirname(os.path.abspath(__file__)))


def make():
    snap = tempfile.mkdtemp(prefix="vsnap.")
    shutil.copy(os.path.join(HERE, "run_check.py"), snap)
    shutil.copy(os.path.join(HERE, "known_findings.json"), snap)
    shutil.copytree(os.path.join(HERE, "vlib"), os.path.join(snap, "vlib"),
                    ignore=shutil.ignore_patterns("__pycache__"))
    shutil.copytree(os.path.join(HERE, "replays", "regress"),
                    os.path.join(snap, "replays", "regress"))
    return snap


def remove(snap):
    shutil.rmtree(snap, ignore_errors=True)
