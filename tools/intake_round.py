#!/venv/bin/python
"""Intake of a round of sub-agent seeded changes.

usage: intake_round.py <outdir> <round-label> <tag>=<suffix> [<tag>=<suffix> ...]
  e.g. intake_round.py /tmp/seed_out5 "round 5" A=e B=f
  (tag "" means plain patch.diff/demo.py/notes.md)
Each candidate is confirmed with tools/verify_seed.sh in a scratch worktree;
confirmed ones are copied to seeded/<Cnn>-<suffix>/ with a meta.json whose
needs_to_manifest is taken from the agent's own notes.
"""
import json
import os
import re
import shutil
import subprocess
import sys
import tempfile
from concurrent.futures import ThreadPoolExecutor

HERE = os.path.dirname(os.path.dirname(os.path.abspath(__file__)))


def one(args):
    outdir, label, pid, tag, suf = args
    src = os.path.join(outdir, pid)
    names = {k: os.path.join(src, "%s%s.%s" % (k, tag, ext))
             for k, ext in (("patch", "diff"), ("demo", "py"), ("notes", "md"))}
    if not all(os.path.exists(p) for p in names.values()):
        return pid, suf, "missing files"
    tmp = tempfile.mkdtemp(prefix="vintake.")
    try:
        shutil.copy(names["patch"], os.path.join(tmp, "patch.diff"))
        shutil.copy(names["demo"], os.path.join(tmp, "demo.py"))
        shutil.copy(names["notes"], os.path.join(tmp, "notes.md"))
        r = subprocess.run([os.path.join(HERE, "tools", "verify_seed.sh"), tmp,
                            "%s-%s" % (pid, suf)], capture_output=True, text=True)
        line = [ln for ln in r.stdout.splitlines() if ln.startswith("RESULT")]
        line = line[-1] if line else r.stdout[-300:] + r.stderr[-300:]
        if "ok=yes" not in line:
            return pid, suf, "NOT CONFIRMED: " + line
        dest = os.path.join(HERE, "seeded", "%s-%s" % (pid, suf))
        os.makedirs(dest, exist_ok=True)
        for f in ("patch.diff", "demo.py", "notes.md"):
            shutil.copy(os.path.join(tmp, f), dest)
        notes = open(names["notes"]).read()
        needs = re.sub(r"\s+", " ", notes)[:900]
        head = subprocess.run(["git", "-C", "/repo", "log", "--format=%h", "-1"],
                              capture_output=True, text=True).stdout.strip()
        meta = {
            "id": "%s-%s" % (pid, suf), "breaks_property": pid,
            "source": "fresh sub-agent (%s) given only the property text, a "
                      "scratch worktree and one-line descriptions of the "
                      "earlier ideas to avoid" % label,
            "needs_to_manifest": "(from the agent's notes) " + needs,
            "confirmed": {
                "by": "tools/verify_seed.sh in a scratch worktree of /repo "
                      "HEAD (%s)" % head, "patch_applies": True,
                "suite_with_patch": "2 failed, 85 passed, 6 deselected "
                                    "(baseline: the two test_pipe cases always"
                                    " fail)",
                "demo_on_clean_tree": "exit 0", "demo_with_patch": "exit 1"},
            "detected_by": "(filled by tools/seeded_matrix.py)"}
        json.dump(meta, open(os.path.join(dest, "meta.json"), "w"), indent=1)
        return pid, suf, "ok"
    finally:
        shutil.rmtree(tmp, ignore_errors=True)


def main():
    outdir, label = sys.argv[1], sys.argv[2]
    pairs = [a.split("=") for a in sys.argv[3:]]
    jobs = []
    for pid in sorted(os.listdir(outdir)):
        if re.match(r"^C\d\d$", pid):
            for tag, suf in pairs:
                jobs.append((outdir, label, pid, tag, suf))
    with ThreadPoolExecutor(8) as ex:
        for pid, suf, res in ex.map(one, jobs):
            print("%s-%s: %s" % (pid, suf, res), flush=True)


if __name__ == "__main__":
    main()
