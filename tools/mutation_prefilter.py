#!/venv/bin/python
"""Phase 1 of the mutant sweep: which single-point mutants survive the
repository's own suite?  Runs many mutants in parallel (one scratch worktree
each, removed at once) and appends to mutants/SUITE.jsonl.  Phase 2 is
`mutation_sweep.py --survivors mutants/SUITE.jsonl`.

usage: mutation_prefilter.py [--n 600] [--seed 2] [--jobs 6]
"""
import argparse
import ast
import copy
import json
import os
import random
import shutil
import sys
import tempfile
from concurrent.futures import ThreadPoolExecutor

HERE = os.path.dirname(os.path.dirname(os.path.abspath(__file__)))
sys.path.insert(0, os.path.join(HERE, "tools"))
import mutation_sweep as MS  # noqa: E402


def one(job):
    fn, site = job
    wt = tempfile.mkdtemp(prefix="vmutp.")
    os.rmdir(wt)
    r = MS.run(["git", "-C", "/repo", "worktree", "add", "--detach", "-q", wt,
                "HEAD"])
    rec = {"file": fn, "site": list(site)}
    if r.returncode:
        rec["status"] = "worktree-failed"
        return rec
    try:
        path = os.path.join(wt, MS.PKG, fn)
        src = open(path).read()
        tree = ast.parse(src)
        m = MS.Mutator(tuple(site))
        try:
            new = m.visit(copy.deepcopy(tree))
        except Exception as e:          # noqa: BLE001
            rec["status"] = "mutator-error: %s" % e
            return rec
        ast.fix_missing_locations(new)
        out = ast.unparse(new)
        if not m.done or ast.dump(ast.parse(out)) == ast.dump(tree):
            rec["status"] = "no-op"
            return rec
        rec["line"] = src.splitlines()[site[1] - 1].strip()
        open(path, "w").write(out + "\n")
        r = MS.run(["/venv/bin/python", "-m", "pytest", "-q", "-x", "-p",
                    "no:cacheprovider", "--deselect",
                    "metomi/isodatetime/tests/test_main.py::test_pipe"], cwd=wt,
                   timeout=240)
        tail = (r.stdout.strip().splitlines() or [""])[-1]
        rec["suite"] = tail[-80:]
        rec["status"] = ("killed-by-suite" if (" failed" in tail or
                         "error" in tail.lower() or r.returncode != 0)
                         else "survives-suite")
        return rec
    finally:
        MS.run(["git", "-C", "/repo", "worktree", "remove", "--force", wt])
        shutil.rmtree(wt, ignore_errors=True)


def main():
    ap = argparse.ArgumentParser()
    ap.add_argument("--n", type=int, default=600)
    ap.add_argument("--seed", type=int, default=2)
    ap.add_argument("--jobs", type=int, default=6)
    ap.add_argument("--out", default=os.path.join(HERE, "mutants", "SUITE.jsonl"))
    args = ap.parse_args()
    rng = random.Random(args.seed)
    sites = []
    for fn in MS.FILES:
        src = open(os.path.join("/repo", MS.PKG, fn)).read()
        f = MS.Finder()
        f.visit(ast.parse(src))
        sites += [(fn, s) for s in f.sites]
    done = set()
    if os.path.exists(args.out):
        for line in open(args.out):
            r = json.loads(line)
            done.add((r["file"], tuple(r["site"])))
    rng.shuffle(sites)
    todo = [s for s in sites if (s[0], tuple(s[1])) not in done][:args.n]
    print("%d sites, %d already done, running %d" % (len(sites), len(done),
                                                     len(todo)), flush=True)
    os.makedirs(os.path.dirname(args.out), exist_ok=True)
    n = 0
    with ThreadPoolExecutor(args.jobs) as ex:
        for rec in ex.map(one, todo):
            n += 1
            with open(args.out, "a") as f:
                f.write(json.dumps(rec) + "\n")
            if rec["status"] == "survives-suite":
                print("%4d SURVIVES-SUITE %-14s L%-5d %s" % (
                    n, rec["file"], rec["site"][1], rec.get("line", "")[:70]),
                    flush=True)


if __name__ == "__main__":
    main()
