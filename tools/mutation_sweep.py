#!/venv/bin/python
"""Automated sensitivity sweep: single-point source mutants of the library.

For each sampled mutant (AST-level: comparison flips, +/- swaps, and/or swaps,
dropped `not`, small integer constants +-1, True/False) the repository's own
suite is run first; mutants the suite already kills are skipped.  Survivors of
the suite are the interesting ones - "realistic changes that still pass the
existing tests" - and are run against the quick checks (cheapest first, stop
at the first check that reports a violation).  Mutants no check kills are
listed for review (equivalent mutant, out of every property's scope, or a
blind spot).

Everything happens in scratch copies outside /repo and /verif, removed as soon
as a mutant is done.  Development evidence, not a registered check.

usage: mutation_sweep.py --n 120 --seed 1 [--files data.py parsers.py ...]
       results: appended to mutants/RESULTS.jsonl (one JSON object per mutant)
"""
import argparse
import ast
import copy
import json
import os
import random
import shutil
import subprocess
import sys
import tempfile
import time

HERE = os.path.dirname(os.path.dirname(os.path.abspath(__file__)))
sys.path.insert(0, os.path.join(HERE, "tools"))
import _snapshot  # noqa: E402

PKG = "metomi/isodatetime"
FILES = ["data.py", "parsers.py", "dumpers.py", "timezone.py", "datetimeoper.py",
         "main.py", "parser_spec.py"]
ORDER = ["C03", "C15", "C20", "C18", "C10", "C06", "C07", "C08", "C05", "C01",
         "C04", "C02", "C12", "C14", "C13", "C17", "C11", "C19", "C16", "C09"]

CMP = {ast.Lt: ast.LtE, ast.LtE: ast.Lt, ast.Gt: ast.GtE, ast.GtE: ast.Gt,
       ast.Eq: ast.NotEq, ast.NotEq: ast.Eq, ast.Is: ast.IsNot,
       ast.IsNot: ast.Is, ast.In: ast.NotIn, ast.NotIn: ast.In}
BIN = {ast.Add: ast.Sub, ast.Sub: ast.Add, ast.Mod: ast.FloorDiv,
       ast.FloorDiv: ast.Mod}


class Finder(ast.NodeVisitor):
    """Enumerate mutation sites as (kind, lineno, col, variant)."""

    def __init__(self):
        self.sites = []
        self.depth = 0

    def visit_FunctionDef(self, node):
        self.depth += 1
        self.generic_visit(node)
        self.depth -= 1

    def visit_Compare(self, node):
        if self.depth:
            for i, op in enumerate(node.ops):
                if type(op) in CMP:
                    self.sites.append(("cmp", node.lineno, node.col_offset, i))
        self.generic_visit(node)

    def visit_BinOp(self, node):
        if self.depth and type(node.op) in BIN and not (
                isinstance(node.left, ast.Constant) and
                isinstance(node.left.value, str)):
            self.sites.append(("bin", node.lineno, node.col_offset,
                               type(node.op).__name__))
        self.generic_visit(node)

    def visit_AugAssign(self, node):
        if self.depth and type(node.op) in BIN:
            self.sites.append(("aug", node.lineno, node.col_offset, 0))
        self.generic_visit(node)

    def visit_BoolOp(self, node):
        if self.depth:
            self.sites.append(("bool", node.lineno, node.col_offset, 0))
        self.generic_visit(node)

    def visit_UnaryOp(self, node):
        if self.depth and isinstance(node.op, ast.Not):
            self.sites.append(("not", node.lineno, node.col_offset, 0))
        self.generic_visit(node)

    def visit_Constant(self, node):
        if self.depth:
            v = node.value
            if isinstance(v, bool):
                self.sites.append(("const", node.lineno, node.col_offset, "flip"))
            elif isinstance(v, int) and -1 <= v <= 400:
                self.sites.append(("const", node.lineno, node.col_offset, "+1"))
                self.sites.append(("const", node.lineno, node.col_offset, "-1"))
        self.generic_visit(node)


class Mutator(ast.NodeTransformer):
    def __init__(self, site):
        self.site = site
        self.done = False

    def _hit(self, node, kind):
        return (not self.done and self.site[0] == kind and
                getattr(node, "lineno", None) == self.site[1] and
                getattr(node, "col_offset", None) == self.site[2])

    def visit_Compare(self, node):
        self.generic_visit(node)
        if self._hit(node, "cmp") and self.site[3] < len(node.ops) and \
                type(node.ops[self.site[3]]) in CMP:
            i = self.site[3]
            node.ops[i] = CMP[type(node.ops[i])]()
            self.done = True
        return node

    def visit_BinOp(self, node):
        self.generic_visit(node)
        if self._hit(node, "bin") and type(node.op).__name__ == self.site[3]:
            node.op = BIN[type(node.op)]()
            self.done = True
        return node

    def visit_AugAssign(self, node):
        self.generic_visit(node)
        if self._hit(node, "aug"):
            node.op = BIN[type(node.op)]()
            self.done = True
        return node

    def visit_BoolOp(self, node):
        self.generic_visit(node)
        if self._hit(node, "bool"):
            node.op = ast.Or() if isinstance(node.op, ast.And) else ast.And()
            self.done = True
        return node

    def visit_UnaryOp(self, node):
        self.generic_visit(node)
        if self._hit(node, "not"):
            self.done = True
            return node.operand
        return node

    def visit_Constant(self, node):
        if self._hit(node, "const"):
            v = node.value
            if self.site[3] == "flip":
                new = not v
            elif self.site[3] == "+1":
                new = v + 1
            else:
                new = v - 1
            self.done = True
            return ast.copy_location(ast.Constant(value=new), node)
        return node


def run(cmd, timeout=None, **kw):
    """subprocess.run that kills the whole process group on timeout."""
    import signal
    p = subprocess.Popen(cmd, stdout=subprocess.PIPE, stderr=subprocess.PIPE,
                         text=True, start_new_session=True, **kw)
    try:
        out, err = p.communicate(timeout=timeout)
    except subprocess.TimeoutExpired:
        os.killpg(p.pid, signal.SIGKILL)
        out, err = p.communicate()
        return subprocess.CompletedProcess(cmd, 124, out, err + "\nTIMEOUT")
    return subprocess.CompletedProcess(cmd, p.returncode, out, err)


def main():
    ap = argparse.ArgumentParser()
    ap.add_argument("--n", type=int, default=60)
    ap.add_argument("--seed", type=int, default=1)
    ap.add_argument("--files", nargs="*", default=FILES)
    ap.add_argument("--out", default=os.path.join(HERE, "mutants", "RESULTS.jsonl"))
    ap.add_argument("--shift", nargs="*", default=[],
                    help="file:after_line:delta - the source gained delta lines"
                    " after after_line since SUITE.jsonl was computed")
    ap.add_argument("--survivors", help="SUITE.jsonl of mutation_prefilter.py:"
                    " run the checks on its suite survivors only")
    args = ap.parse_args()
    rng = random.Random(args.seed)
    sites = []
    for fn in args.files:
        src = open(os.path.join("/repo", PKG, fn)).read()
        f = Finder()
        f.visit(ast.parse(src))
        weight = 4 if fn == "data.py" else 1
        for s in f.sites:
            sites.append((fn, s, weight))
    pool = [s for s in sites for _ in range(s[2])]
    rng.shuffle(pool)
    chosen, seen = [], set()
    for s in pool:
        key = (s[0], s[1])
        if key not in seen:
            seen.add(key)
            chosen.append(s)
        if len(chosen) >= args.n:
            break
    print("%d mutation sites in %s; sampling %d" % (len(sites), args.files,
                                                    len(chosen)), flush=True)
    if args.survivors:
        done = set()
        if os.path.exists(args.out):
            for line in open(args.out):
                r = json.loads(line)
                done.add((r["file"], tuple(r["site"])))
        chosen = []
        for line in open(args.survivors):
            r = json.loads(line)
            key = (r["file"], tuple(r["site"]))
            if r["status"] == "survives-suite" and key not in done:
                site = list(r["site"])
                for sh in args.shift:
                    f_, after, delta = sh.split(":")
                    if f_ == r["file"] and site[1] > int(after):
                        site[1] += int(delta)
                chosen.append((r["file"], tuple(site), 1))
                done.add(key)
        rng.shuffle(chosen)
        chosen = chosen[:args.n]
        print("%d suite survivors to run" % len(chosen), flush=True)
    os.makedirs(os.path.dirname(args.out), exist_ok=True)
    snap = _snapshot.make()
    for k, (fn, site, _) in enumerate(chosen):
        wt = tempfile.mkdtemp(prefix="vmut.")
        os.rmdir(wt)
        r = run(["git", "-C", "/repo", "worktree", "add", "--detach", "-q", wt,
                 "HEAD"])
        if r.returncode:
            print("worktree failed", r.stderr)
            return 2
        rec = {"file": fn, "site": list(site), "seed": args.seed, "index": k}
        try:
            path = os.path.join(wt, PKG, fn)
            src = open(path).read()
            tree = ast.parse(src)
            m = Mutator(site)
            new = m.visit(copy.deepcopy(tree))
            ast.fix_missing_locations(new)
            out = ast.unparse(new)
            if not m.done or ast.dump(ast.parse(out)) == ast.dump(tree):
                rec["status"] = "no-op"
                continue
            line = src.splitlines()[site[1] - 1].strip()
            rec["line"] = line
            open(path, "w").write(out + "\n")
            t0 = time.time()
            r = run(["/venv/bin/python", "-m", "pytest", "-q", "-x", "-p",
                     "no:cacheprovider", "--deselect",
                     "metomi/isodatetime/tests/test_main.py::test_pipe"], cwd=wt,
                    timeout=180)
            tail = (r.stdout.strip().splitlines() or [""])[-1]
            rec["suite"] = tail
            if " failed" in tail or "error" in tail.lower() or r.returncode not in (0,):
                rec["status"] = "killed-by-suite"
                continue
            env = dict(os.environ, VERIF_REPO=wt, VERIF_SEED=str(args.seed),
                       VERIF_SCALE=os.environ.get("VERIF_SCALE", "0.35"))
            killed = None
            for pid in ORDER:
                r = run([os.path.join(snap, "run_check.py"), pid, "--tier",
                         "quick"], env=env, cwd=snap, timeout=1200)
                if r.returncode == 124:
                    killed = pid
                    rec["message"] = "check did not finish within 20 min (hang)"
                    break
                if r.returncode == 1:
                    killed = pid
                    lines = r.stdout.splitlines()
                    for i, ln in enumerate(lines):
                        if ln.startswith("VIOLATION") and i + 1 < len(lines):
                            rec["message"] = lines[i + 1].strip()[:300]
                            break
                    break
                if r.returncode == 2:
                    rec.setdefault("harness_errors", []).append(
                        [pid, r.stderr[-400:]])
            rec["status"] = "killed-by-" + killed if killed else "SURVIVED"
            rec["wall_s"] = round(time.time() - t0)
        finally:
            run(["git", "-C", "/repo", "worktree", "remove", "--force", wt])
            shutil.rmtree(wt, ignore_errors=True)
            shutil.rmtree(os.path.join(snap, "replays", "found"),
                          ignore_errors=True)
            with open(args.out, "a") as f:
                f.write(json.dumps(rec) + "\n")
            print("%3d %-16s %-14s L%-5d %-40s %s" % (
                k, rec.get("status"), fn, site[1], rec.get("line", "")[:40],
                rec.get("message", "")[:100]), flush=True)
    _snapshot.remove(snap)
    return 0


if __name__ == "__main__":
    sys.exit(main())
