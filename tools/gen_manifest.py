#!/venv/bin/python
"""Regenerate MANIFEST.json from the table below (kept valid at all times)."""
import json
import os
import sys

HERE = os.path.dirname(os.path.dirname(os.path.abspath(__file__)))

# pid -> (technique, level text, level note, design ref)
CHECKS = {}


def add(pid, technique, text, note):
    CHECKS[pid] = (technique, text, note)


add("C03",
    "exhaustive enumeration of days + Hypothesis-drawn years/ranges against a "
    "closed-form reference calendar (differential oracle)",
    "Every day of the enumerated years (thorough: a full 400-year Gregorian "
    "cycle and 28-year blocks of the fixed calendars, all 7 mode spellings) is "
    "pushed through all six conversions, the TimePoint views and the length "
    "queries and compared with an independent closed-form model; random years "
    "to +-999999 and year ranges extend it. Exploration: exhaustive on the "
    "enumerated block, sampled elsewhere.",
    "trusts vlib/refcal.py (self-checked against datetime.date each run) and "
    "the Monday 2000-01-03 weekday anchor")

add("C01",
    "Hypothesis-generated (point, exact duration, operator) cases; differential "
    "oracle = independent closed-form calendar/instant model",
    "Generated points (3 representations x 5 time forms incl. 24:00 x offsets "
    "to +-99:59 x years through 0/negative, 4 modes/7 spellings) plus exact "
    "durations (week/unit form, either or mixed sign, integer or decimal) are "
    "added/subtracted and the result's native fields are re-read through an "
    "independent day-number model: instant shift exact (1 us with decimals), "
    "representation/offset kept, fields a real date-time, p-d == p+(-d). The "
    "histogram of day/month/year/leap-day/century/week-year crossings per "
    "representation and direction is reported. Exploration only.",
    "trusts vlib/refcal.py; decimal cases are held to 1 microsecond")
add("C02",
    "Hypothesis-generated pairs/triples (independent, same-instant re-spellings,"
    " near neighbours); oracle = sign of exact instant difference",
    "All six operators, symmetry, hash equality, transitivity via sort order, "
    "set size, dict lookup and the sign of a-b are compared with the order of "
    "exact rational instants computed by the reference model from the "
    "generated fields. Exploration only.",
    "trusts vlib/refcal.py; decimals restricted to dyadic fractions so that "
    "equal instants are exact in floats")
add("C04",
    "Hypothesis-generated point pairs and (point, duration) pairs; oracle = "
    "exact instant distance + round-trip/metamorphic identities",
    "a-b is compared with the exact distance of reference instants (length, no "
    "nominal part, one sign, normalised h/m/s), (a-b) == -(b-a), b+(a-b) "
    "lands on a's instant and == a, (p+d)-p == d. Distances from 0 to ~24000 "
    "years incl. across year 0. Exploration only.",
    "trusts vlib/refcal.py; 1 microsecond tolerance with decimals; add-back "
    "clause bounded to 2e5/2e6 days")
add("C06",
    "Hypothesis-generated (point, destination offset, route) cases; oracle = "
    "instant invariance via reference model + independent text decoder",
    "to_time_zone/to_utc/to_local_time_zone (faked system zone) and dumps with "
    "literal zones are checked for: requested offset carried, instant "
    "unchanged, representation kept, valid fields, library ==/hash/zero "
    "difference, dumped text ends with the literal zone and decodes (own "
    "positional decoder) to the same instant. Exploration only.",
    "trusts vlib/refcal.py and vlib/forms.py; the system zone is substituted "
    "through metomi.isodatetime.timezone.time like the repo's own conftest")

add("C05",
    "Hypothesis-generated (point, nominal duration, route) cases; oracle = the "
    "statement's clamping semantics executed on the reference calendar",
    "Month/year arithmetic (p+d, d+p, p-d, add_months) from starts biased to "
    "month ends, 29 Feb, day 365/366 and week 52/53 is compared field by field"
    " with an independent step-by-step model (exact part, then single clamping"
    " month steps, then the representation-specific year clamp); add_months(n)"
    " must equal n single steps. Exploration only.",
    "trusts vlib/refcal.py; 24:00 starts excluded (undefined by the statement)")
add("C10",
    "Hypothesis-generated durations and duration texts; round-trip oracle + "
    "own encoder/expected components + alternative-vs-designator differential",
    "parse(str(d)) == d with equal hash and str a fixpoint for single-signed "
    "durations incl. arbitrary finite floats; designator strings rendered by "
    "our encoder decode to exactly the spelled components; the date-time-like "
    "spelling (basic/extended, calendar/ordinal) equals its designator "
    "spelling. Exploration only.",
    "decimals in the alternative spelling are compared within 1 microsecond "
    "(the two parsers build the float differently); see DESIGN section 5")
add("C11",
    "Hypothesis-generated duration pairs/triples and multipliers; algebraic "
    "laws + exact-rational length oracle",
    "Commutativity, associativity, identity, inverse, n*d == n-fold sum, "
    "a-b == a+(-1*b) are checked on components against exact rational "
    "arithmetic; equality/hash/ordering of exact durations against total "
    "length; nominal equality and the rough-length ordering per calendar "
    "mode. Pairs include re-spellings of one length in other units and "
    "one-component variations. Exploration only.",
    "integer components exact; decimal components within 1 us / 1e-12 relative")

add("C07",
    "Hypothesis-generated (form, values, parser configuration) triples "
    "rendered by an own encoder from a hand-copied form table; oracle = the "
    "generated field values + dump_as_parsed round trip + refusal expectations",
    "Every documented date x time x zone form (complete, reduced, expanded, "
    "decimals of 1-9 digits with , or ., 24:00) and every truncated form is "
    "rendered from generated valid values and parsed under generated parser "
    "configurations (expanded digits 0-4, allow_only_basic, assumed zone, "
    "default-to-unknown, faked local zone); fields, defaults, resolved zone "
    "and dump_as_parsed text are compared with what was spelled; "
    "extended-only strings under allow_only_basic and basic/extended mixtures "
    "must raise ISO8601SyntaxError. Per-form hit counts are reported. "
    "Exploration only.",
    "trusts the hand-copied tables and encoder in vlib/forms.py; negative "
    "zero (year or offset) not generated")
add("C08",
    "Hypothesis-generated points and dump formats; round-trip oracle + "
    "instant equality through the reference model",
    "str -> parse must restore representation, offset and every field, "
    "compare equal, hash equal and be a str fixpoint, for expanded digits "
    "0-3, all representations, decimal forms, 24:00 and every offset; custom "
    "complete formats from a grammar (via the dumper and via dump_format) "
    "must parse back to the same instant. Exploration only.",
    "trusts vlib/refcal.py; <= 6 decimal digits")
add("C09",
    "exhaustive enumeration of field tuples around the legal ranges + "
    "Hypothesis mutation/splice fuzzing of the three parsers with a "
    "type/validity/termination oracle",
    "Acceptance is decided exhaustively on boxes around every legal range for "
    "each year type and mode spelling through constructors and text "
    "notations (accepted <=> real date-time per the reference calendar); "
    "robustness by mutated/spliced/arbitrary-unicode text through the time "
    "point, duration and recurrence parsers under generated configurations: "
    "valid object or ValueError subclass, under a watchdog. Exhaustive on the "
    "boxes, sampled on text.",
    "trusts vlib/refcal.py; recurrence inputs with an estimated walk above "
    "2e7 days are not executed (legitimately expensive)")

add("C12",
    "Hypothesis-generated recurrence specs (3 notations, constructor and "
    "parser) against a point-by-point reference series",
    "The first points (up to 45, all of a bounded series) are compared with a "
    "series stepped on the independent calendar model: order, instants, exact "
    "count and anchor of bounded series, strict monotonicity, library "
    "step-consistency, single-point cases, and ==/identical iteration of the "
    "three notations of a finite exact series. Known finding F1 (bounded "
    "nominal series) is excluded by an executable defect model only. "
    "Exploration only.",
    "trusts vlib/refcal.py and the C05 month/year reference; whole seconds")
add("C13",
    "Hypothesis-generated recurrences and probe points; model-based oracle = "
    "the library's own materialised iteration",
    "get_is_valid, indexing, get_next/get_prev and get_first_after are "
    "compared with the iterated member list for probes before/on/between/"
    "after members, members re-spelled in other offsets/representations/"
    "24:00, and always the last member of a bounded series. Exploration only.",
    "iteration itself is decided by C12; unbounded series materialised to 60 "
    "members")
add("C14",
    "Hypothesis-generated recurrences, shifts and variant pairs; metamorphic "
    "and round-trip oracles",
    "Shifts (r+d, d+r, r-(-d)) must equal a fresh recurrence built from "
    "reference-shifted anchors, move every member of exact series by len(d), "
    "invert, and survive str->parse; one-component variants must be unequal; "
    "re-spellings equal with equal hashes and identical iteration; "
    "parse(str(r)) == r with the same points. Exploration only.",
    "trusts vlib/refcal.py; equality of re-spellings demanded for exact "
    "intervals and unbounded series only")

add("C17",
    "Hypothesis-generated points and format strings from a directive grammar; "
    "oracle = hand-written POSIX reference (cross-checked with datetime), "
    "round trip through strptime, refusal of other directives",
    "strftime (TimePoint and dumper) is compared with a POSIX reference "
    "evaluated on reference-calendar civil fields for all supported "
    "directives and literal text; strptime(strftime(p,f),f) must recover the "
    "instant and offset for determining formats and %s; partial formats must "
    "default to the start of the period / configured zone; every other "
    "%-word directive must raise StrftimeSyntaxError. Exploration only.",
    "trusts vlib/refcal.py and the POSIX reference in the check; datetime is "
    "used as a second oracle for Gregorian years >= 1000 only")
add("C18",
    "exhaustive enumeration of system zone configurations + Hypothesis-"
    "generated second counts/points against the reference instant model",
    "Every whole-minute standard offset x flag combination x daylight offset "
    "(boundary set quick, all minutes thorough) is pushed through "
    "get_local_time_zone and its three text forms via a fake time module; "
    "epoch -> TimePoint and TimePoint -> epoch seconds are compared with the "
    "reference instants over +-3800 (quick) / +-12000 (thorough) years. "
    "Exhaustive on the zone sub-domain, sampled on second counts.",
    "trusts vlib/refcal.py; fractional counts bounded so a double resolves 1us")
add("C20",
    "Hypothesis-generated (truncated point, full point, order, route) cases; "
    "oracle = brute-force earliest-match search on the reference calendar",
    "p + t and t + p are compared with a brute-force scan of local days and "
    "candidate times in t's (or p's) offset; result must be in p's offset, "
    "valid, idempotent, within a 20 s watchdog; p is placed on / one second "
    "around matches half of the time. Known finding F2 excluded by an "
    "executable two-stage defect model only. Exploration only.",
    "trusts vlib/refcal.py; whole seconds; designator values the mode admits")

add("C19",
    "Hypothesis-generated argument vectors run through main() in-process; "
    "oracle = own encoder on reference-shifted fields, own duration decoder, "
    "differential against library iteration, exit-status contract",
    "Date-time arguments in every documented complete/reduced notation with "
    "0-3 offsets in all documented spellings, --utc, --calendar / "
    "ISODATETIMECALENDAR, ref / --ref / ISODATETIMEREF are compared with the "
    "text our encoder produces from fields shifted on the reference calendar; "
    "two-argument differences (and --as-total) are decoded independently and "
    "compared with reference instants; recurrences with --max against "
    "library iteration; arguments the library's parsers refuse must exit "
    "non-zero with a message and no traceback. Exploration only.",
    "trusts vlib/refcal.py, vlib/forms.py; results that cannot be printed in "
    "the input's own notation are out of scope")

add("C15",
    "Hypothesis RuleBasedStateMachine over mode switches and calendar "
    "computations; differential oracle = single-mode worker processes, plus "
    "the reference calendar definition",
    "Histories of up to 40 steps switch the mode through the API, "
    "DateTimeOperator, the environment variable (and its absence) and the CLI "
    "option over all 7 spellings and interleave ~20 kinds of calendar "
    "computations whose arguments come from a small pool so that the same "
    "call recurs under different modes; every result must equal the answer of "
    "a worker process that only ever used the current mode; length queries "
    "must equal the mode's definition; the reported mode must be the selected "
    "one. Exploration only.",
    "the single-mode worker (vlib/workers/mode_worker.py) is the reference "
    "for 'a fresh process that only ever used the current mode'")
add("C16",
    "Hypothesis RuleBasedStateMachine over pools of values; invariant oracle = "
    "recursive snapshot (slots, str, hash) of every value ever seen",
    "Histories of up to 40-50 steps construct TimePoint (full, 24:00, decimal,"
    " truncated), Duration, TimeZone and TimeRecurrence values and apply ~40 "
    "families of public operations (incl. augmented assignment and building "
    "recurrences from pooled points and durations) to operands drawn from the "
    "pools (results "
    "and linked sub-objects re-enter the pools); after every step every value "
    "ever seen is re-snapshotted and must be unchanged. Exploration only.",
    "any exception from an operation is 'no result'; long-running operations "
    "are cut by a watchdog and not judged")

NOT_YET = {}


def main():
    props = [json.loads(line) for line in open(os.path.join(HERE, "properties.jsonl"))]
    checks = []
    na = []
    for p in props:
        pid = p["id"]
        if pid in CHECKS:
            tech, text, note = CHECKS[pid]
            checks.append({
                "property_id": pid,
                "quick_cmd": "/venv/bin/python run_check.py %s --tier quick" % pid,
                "thorough_cmd": "/venv/bin/python run_check.py %s --tier thorough" % pid,
                "evidence_file": "/verif/evidence/%s.json" % pid,
                "replay_cmd_template": "/venv/bin/python run_check.py %s --replay {path}" % pid,
                "engine": "pbt",
                "level_claimed": {"category": "exploration", "text": text,
                                  "design_ref": "DESIGN.md section 4, %s" % pid},
                "level_note": note,
                "technique": tech,
            })
        else:
            na.append({"property_id": pid, "reason": NOT_YET.get(
                pid, "check not built yet in this session (planned: see "
                "DESIGN.md section 4); nothing is claimed for it")})
    manifest = {
        "version": 1,
        "setup_cmd": "/venv/bin/python -c 'import hypothesis' 2>/dev/null || "
                     "/venv/bin/pip install --no-index --find-links "
                     "/opt/veriftools/wheels hypothesis",
        "hooks": {
            "guard": "METOMI_ISODATETIME_VERIF",
            "enable": "no source hooks are needed or present: the checks "
                      "import metomi.isodatetime from /repo's working tree "
                      "(VERIF_REPO overrides) and substitute "
                      "metomi.isodatetime.timezone.time / os.environ from the "
                      "harness",
            "baseline_off_cmd": "cd /repo && /venv/bin/python -m pytest -ra -q "
                                "-p no:cacheprovider --timeout=900 "
                                "--continue-on-collection-errors",
            "source_commits": [],
            "add_only": True,
        },
        "engines": [
            {"name": "pbt", "path": "/verif/run_check.py",
             "serves_properties": sorted(CHECKS),
             "kind_free_text": "Hypothesis-driven generated-input search "
             "(plus exhaustive enumeration of finite sub-domains) against "
             "an independent reference model; 16 seeded shards; shrunk "
             "failures become JSON replay files"},
        ],
        "checks": checks,
        "notes": "Run from /verif. VERIF_SEED selects the seeds of all shards; "
                 "VERIF_REPO (default /repo) selects the tree under test. "
                 "known_findings.json lists repaired defects (fix: commits in "
                 "/repo) and open findings.",
        "not_applicable": na,
    }
    with open(os.path.join(HERE, "MANIFEST.json"), "w") as f:
        json.dump(manifest, f, indent=1)
        f.write("\n")
    print("wrote MANIFEST.json: %d checks, %d not claimed" % (len(checks), len(na)))


if __name__ == "__main__":
    sys.exit(main())
