#!/venv/bin/python
"""Regenerate MANIFEST.json from the table below (kept valid at all times)."""
import json
import os
import sys

HERE = os.path.dirname(os.path.dirname(os.path.abspath(__file__)))

# pid -> (technique, level text, level note, design ref)
CHECKS = {}


def add(pid, technique, text, note):
    CHECKS[pid] = (technique, text, note)


add("C03",
    "exhaustive enumeration of days + Hypothesis-drawn years/ranges against a "
    "closed-form reference calendar (differential oracle)",
    "Every day of the enumerated years (thorough: a full 400-year Gregorian "
    "cycle and 28-year blocks of the fixed calendars, all 7 mode spellings) is "
    "pushed through all six conversions, the TimePoint views and the length "
    "queries and compared with an independent closed-form model; random years "
    "to +-999999 and year ranges extend it. Exploration: exhaustive on the "
    "enumerated block, sampled elsewhere.",
    "trusts vlib/refcal.py (self-checked against datetime.date each run) and "
    "the Monday 2000-01-03 weekday anchor")

NOT_YET = {}


def main():
    props = [json.loads(line) for line in open(os.path.join(HERE, "properties.jsonl"))]
    checks = []
    na = []
    for p in props:
        pid = p["id"]
        if pid in CHECKS:
            tech, text, note = CHECKS[pid]
            checks.append({
                "property_id": pid,
                "quick_cmd": "/venv/bin/python run_check.py %s --tier quick" % pid,
                "thorough_cmd": "/venv/bin/python run_check.py %s --tier thorough" % pid,
                "evidence_file": "/verif/evidence/%s.json" % pid,
                "replay_cmd_template": "/venv/bin/python run_check.py %s --replay {path}" % pid,
                "engine": "pbt",
                "level_claimed": {"category": "exploration", "text": text,
                                  "design_ref": "DESIGN.md section 4, %s" % pid},
                "level_note": note,
                "technique": tech,
            })
        else:
            na.append({"property_id": pid, "reason": NOT_YET.get(
                pid, "check not built yet in this session (planned: see "
                "DESIGN.md section 4); nothing is claimed for it")})
    manifest = {
        "version": 1,
        "setup_cmd": "/venv/bin/python -c 'import hypothesis' 2>/dev/null || "
                     "/venv/bin/pip install --no-index --find-links "
                     "/opt/veriftools/wheels hypothesis",
        "hooks": {
            "guard": "METOMI_ISODATETIME_VERIF",
            "enable": "no source hooks are needed or present: the checks "
                      "import metomi.isodatetime from /repo's working tree "
                      "(VERIF_REPO overrides) and substitute "
                      "metomi.isodatetime.timezone.time / os.environ from the "
                      "harness",
            "baseline_off_cmd": "cd /repo && /venv/bin/python -m pytest -ra -q "
                                "-p no:cacheprovider --timeout=900 "
                                "--continue-on-collection-errors",
            "source_commits": [],
            "add_only": True,
        },
        "engines": [
            {"name": "pbt", "path": "/verif/run_check.py",
             "serves_properties": sorted(CHECKS),
             "kind_free_text": "Hypothesis-driven generated-input search "
             "(plus exhaustive enumeration of finite sub-domains) against "
             "an independent reference model; 16 seeded shards; shrunk "
             "failures become JSON replay files"},
        ],
        "checks": checks,
        "notes": "Run from /verif. VERIF_SEED selects the seeds of all shards; "
                 "VERIF_REPO (default /repo) selects the tree under test. "
                 "known_findings.json lists repaired defects (fix: commits in "
                 "/repo) and open findings.",
        "not_applicable": na,
    }
    with open(os.path.join(HERE, "MANIFEST.json"), "w") as f:
        json.dump(manifest, f, indent=1)
        f.write("\n")
    print("wrote MANIFEST.json: %d checks, %d not claimed" % (len(checks), len(na)))


if __name__ == "__main__":
    sys.exit(main())
