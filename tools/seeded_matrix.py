#!/venv/bin/python
"""Run quick checks against every seeded change (in scratch worktrees).

usage: seeded_matrix.py [--all] [--only ID ...] [--seed N]
  default: each seeded change is run against the check of the property it
  breaks; --all runs every check against every change (slow).
Results go to seeded/<id>/meta.json ("detected_by") and seeded/MATRIX.json.
The scratch worktree lives outside /repo and /verif and is removed afterwards;
the checks run from a frozen snapshot of /verif's code (tools/_snapshot.py), so
/verif/evidence is never written by a run against a patched tree.
"""
import argparse
import json
import os
import subprocess
import sys
import tempfile
import time

HERE = os.path.dirname(os.path.dirname(os.path.abspath(__file__)))
sys.path.insert(0, os.path.join(HERE, "tools"))
import _snapshot  # noqa: E402

ALL = ["C%02d" % i for i in range(1, 21)]


def run(cmd, **kw):
    return subprocess.run(cmd, capture_output=True, text=True, **kw)


def main():
    ap = argparse.ArgumentParser()
    ap.add_argument("--all", action="store_true")
    ap.add_argument("--only", nargs="*")
    ap.add_argument("--checks", nargs="*")
    ap.add_argument("--seed", default="1")
    args = ap.parse_args()
    seeded = sorted(d for d in os.listdir(os.path.join(HERE, "seeded"))
                    if os.path.isdir(os.path.join(HERE, "seeded", d)))
    if args.only:
        seeded = [d for d in seeded if d in args.only]
    matrix_path = os.path.join(HERE, "seeded", "MATRIX.json")
    snap = _snapshot.make()
    matrix = json.load(open(matrix_path)) if os.path.exists(matrix_path) else {}
    for sid in seeded:
        sdir = os.path.join(HERE, "seeded", sid)
        meta = json.load(open(os.path.join(sdir, "meta.json")))
        target = meta["breaks_property"]
        checks = args.checks or (ALL if args.all else [target])
        wt = tempfile.mkdtemp(prefix="vmatrix.")
        os.rmdir(wt)
        r = run(["git", "-C", "/repo", "worktree", "add", "--detach", "-q", wt,
                 "HEAD"])
        if r.returncode:
            print("worktree failed", r.stderr)
            return 2
        try:
            r = run(["git", "-C", wt, "apply", os.path.join(sdir, "patch.diff")])
            if r.returncode:
                print("%s: patch does not apply: %s" % (sid, r.stderr.strip()))
                matrix.setdefault(sid, {})["_apply"] = "FAILED"
                continue
            env = dict(os.environ, VERIF_REPO=wt, VERIF_SEED=args.seed)
            for pid in checks:
                t0 = time.time()
                r = run([os.path.join(snap, "run_check.py"), pid, "--tier",
                         "quick"], env=env, cwd=snap)
                viol = [ln for ln in r.stdout.splitlines()
                        if ln.startswith("VIOLATION")]
                first = ""
                lines = r.stdout.splitlines()
                for i, ln in enumerate(lines):
                    if ln.startswith("VIOLATION") and i + 1 < len(lines):
                        first = lines[i + 1].strip()[:300]
                        break
                res = {"exit": r.returncode, "violations": len(viol),
                       "first": first, "wall_s": round(time.time() - t0, 1),
                       "seed": args.seed}
                matrix.setdefault(sid, {})[pid] = res
                print("%s x %s: exit=%d violations=%d %.0fs %s" % (
                    sid, pid, r.returncode, len(viol), res["wall_s"],
                    first[:120]), flush=True)
                if r.returncode == 2:
                    print(r.stderr[-2000:])
        finally:
            run(["git", "-C", "/repo", "worktree", "remove", "--force", wt])
            subprocess.run(["rm", "-rf", wt])
        det = sorted(p for p, v in matrix.get(sid, {}).items()
                     if isinstance(v, dict) and v.get("exit") == 1)
        meta["detected_by"] = {
            "quick_checks_that_report_a_violation": det,
            "target_property_check_detects": target in det,
            "details": {p: matrix[sid][p] for p in det},
            "how": "tools/seeded_matrix.py: patch applied in a scratch "
                   "worktree, run_check.py <ID> --tier quick with VERIF_REPO "
                   "pointing at it, VERIF_SEED=%s" % args.seed}
        json.dump(meta, open(os.path.join(sdir, "meta.json"), "w"), indent=1)
        json.dump(matrix, open(matrix_path, "w"), indent=1, sort_keys=True)
    _snapshot.remove(snap)
    return 0


if __name__ == "__main__":
    sys.exit(main())
