"""Hypothesis strategies producing JSON-serialisable cases.

Sound first: only values the constructors document as valid are produced;
dates are *constructed* through the reference calendar (never filtered).
"""
from hypothesis import strategies as st

from vlib import refcal as R

MODE_WEIGHTED = st.sampled_from(
    ["gregorian"] * 6 + ["360day"] * 3 + ["365day"] * 3 + ["366day"] * 3 +
    ["360_day", "365_day", "366_day"])

BOUNDARY_YEARS = (
    [-401, -400, -399, -101, -100, -99] + list(range(-5, 6)) +
    list(range(1899, 1906)) + list(range(1995, 2031)) +
    list(range(2096, 2105)) + [9998, 9999, 10000, 10001])


def st_year(lo=-12000, hi=12000):
    ys = [y for y in BOUNDARY_YEARS if lo <= y <= hi]
    return st.one_of(st.sampled_from(ys), st.sampled_from(ys),
                     st.integers(lo, hi),
                     st.integers(max(lo, 1900), min(hi, 2100))
                     if lo <= 2100 and hi >= 1900 else st.integers(lo, hi))


TZ_SPECIAL = [(0, 0), (0, 0), (0, 30), (0, -30), (5, 45), (-5, -45), (12, 45),
              (-12, -45), (14, 0), (-14, 0), (23, 59), (-23, -59), (24, 1),
              (-24, -1), (99, 59), (-99, -59), (1, 0), (-1, 0), (0, 1), (0, -1),
              (0, 59), (0, -59), (-3, -30), (9, 30)]


@st.composite
def st_tz(draw):
    """(hours, minutes): minutes carry the hour's sign; either sign at 0 h."""
    if draw(st.integers(0, 9)) < 6:
        return draw(st.sampled_from(TZ_SPECIAL))
    h = draw(st.integers(-99, 99))
    m = draw(st.one_of(st.just(0), st.sampled_from([15, 30, 45]),
                       st.integers(0, 59)))
    if h < 0:
        m = -m
    elif h == 0 and draw(st.booleans()):
        m = -m
    return h, m


def _dec(draw, dyadic, max_digits=6):
    """A decimal fraction in [0,1) as a float of a short decimal string."""
    if dyadic:
        n = draw(st.integers(1, 6))
        k = draw(st.integers(0, 2 ** n - 1))
        return k / 2 ** n
    nd = draw(st.integers(1, max_digits))
    k = draw(st.one_of(st.integers(0, 10 ** nd - 1),
                       st.sampled_from([0, 1, 10 ** nd - 1, 5 * 10 ** (nd - 1)])))
    return float("0.%0*d" % (nd, k))


ALL_FORMS = ("hms", "hms", "hms", "hms,tt", "hm,nn", "h,ii", "24")
INT_FORMS = ("hms", "hms", "hms", "24")


@st.composite
def st_time(draw, forms=ALL_FORMS, dyadic=False):
    form = draw(st.sampled_from(forms))
    kw = {}
    if form == "24":
        kw["hour_of_day"] = 24
        k = draw(st.integers(0, 9))
        if k == 0:
            kw["minute_of_hour"] = 0
        elif k == 1:
            kw["minute_of_hour"] = 0
            kw["second_of_minute"] = 0
        return kw
    h = draw(st.one_of(st.sampled_from([0, 0, 23, 23, 12, 1]), st.integers(0, 23)))
    m = draw(st.one_of(st.sampled_from([0, 0, 59, 59, 30]), st.integers(0, 59)))
    s = draw(st.one_of(st.sampled_from([0, 0, 59, 59, 1]), st.integers(0, 59)))
    kw["hour_of_day"] = h
    if form == "h,ii":
        kw["hour_of_day_decimal"] = _dec(draw, dyadic)
        return kw
    kw["minute_of_hour"] = m
    if form == "hm,nn":
        kw["minute_of_hour_decimal"] = _dec(draw, dyadic)
        return kw
    kw["second_of_minute"] = s
    if form == "hms,tt":
        kw["second_of_minute_decimal"] = _dec(draw, dyadic)
    return kw


def spell_date(cm, dn, rep):
    """Constructor kwargs spelling day number dn in representation rep."""
    if rep == "c":
        y, mo, d = R.cal_from_dn(cm, dn)
        return {"year": y, "month_of_year": mo, "day_of_month": d}
    if rep == "o":
        y, doy = R.ord_from_dn(cm, dn)
        return {"year": y, "day_of_year": doy}
    wy, w, wd = R.week_from_dn(cm, dn)
    return {"year": wy, "week_of_year": w, "day_of_week": wd}


@st.composite
def st_dn(draw, cm, years=None):
    """A day number of mode cm, biased to month/year/leap/week-year edges."""
    y = draw(years if years is not None else st_year())
    n = R.ylen(cm, y)
    ml = R.mlens(cm, y)
    k = draw(st.integers(0, 9))
    if k < 4:
        doy = draw(st.sampled_from([1, 1, 2, 3, 4, n - 3, n - 2, n - 1, n, n]))
    elif k < 7:
        # a month edge
        mo = draw(st.integers(1, 12))
        before = sum(ml[:mo - 1])
        doy = before + draw(st.sampled_from([1, 2, ml[mo - 1] - 1, ml[mo - 1],
                                             ml[mo - 1]]))
        if mo == 2:
            doy = before + draw(st.sampled_from([27, 28, ml[1]]))
    else:
        doy = draw(st.integers(1, n))
    doy = min(max(doy, 1), n)
    return R.days_before_year(cm, y) + doy - 1


def expanded_digits_for(y, draw=None):
    if not 0 <= y <= 9999:
        return 2
    if draw is None:
        return 0
    return draw(st.sampled_from([0, 0, 2]))


@st.composite
def st_point_kw(draw, cm, forms=ALL_FORMS, dyadic=False, reps="cow",
                years=None, tz=None, dn=None):
    """Constructor kwargs of a valid full TimePoint of mode cm."""
    day = draw(st_dn(cm, years)) if dn is None else dn
    rep = draw(st.sampled_from(reps))
    kw = spell_date(cm, day, rep)
    kw.update(draw(st_time(forms, dyadic)))
    tzh, tzm = draw(st_tz()) if tz is None else tz
    kw["time_zone_hour"], kw["time_zone_minute"] = tzh, tzm
    kw["num_expanded_year_digits"] = expanded_digits_for(kw["year"], draw)
    return kw


EDGE_TZ_EAST = [(1, 0), (14, 0), (5, 30), (0, 30), (0, 1), (23, 59), (99, 59)]


@st.composite
def st_edge_point_kw(draw, cm, forms=INT_FORMS, dyadic=False, reps="cow",
                     quarter_tz=False):
    """A full point within an hour of midnight on the first / last day of a
    month (January, February, March and December favoured, so year ends and
    leap days), written in an offset that puts its UTC date on the other side
    of that edge: first day at 00:xx east of Greenwich, last day at 23:xx
    west of it."""
    y = draw(st.sampled_from(BOUNDARY_YEARS))
    mo = draw(st.sampled_from([1, 2, 2, 3, 3, 12, 12, draw(st.integers(1, 12))]))
    last = draw(st.booleans())
    dn = R.dn_from_cal(cm, y, mo, R.mlens(cm, y)[mo - 1] if last else 1)
    east = [(1, 0), (14, 0), (5, 30), (0, 30), (5, 45)] if quarter_tz \
        else EDGE_TZ_EAST
    tzh, tzm = draw(st.sampled_from(east))
    if last:
        tzh, tzm = -tzh, -tzm
    kw = draw(st_point_kw(cm, forms=[f for f in forms if f != "24"] or forms,
                          dyadic=dyadic, reps=reps, dn=dn, tz=(tzh, tzm)))
    if kw.get("hour_of_day") != 24:
        kw["hour_of_day"] = 23 if last else 0
    return kw


def respell(draw, cm, instant_s, reps="cow", tz=None, allow24=True,
            decimal=False):
    """Kwargs of another spelling of the whole-second instant ``instant_s``.

    decimal: the time of day may be spelled as a decimal hour / minute when
    that fraction is dyadic (exact in binary floats)."""
    tzh, tzm = draw(st_tz()) if tz is None else tz
    local = instant_s + tzh * 3600 + tzm * 60
    dn, sod = divmod(local, 86400)
    rep = draw(st.sampled_from(reps))
    if decimal and sod % 15 == 0 and draw(st.integers(0, 2)) > 0:
        kw = spell_date(cm, dn, rep)
        kw["hour_of_day"], r = divmod(sod, 3600)
        if sod % 225 == 0 and draw(st.booleans()):
            kw["hour_of_day_decimal"] = r / 3600
        else:
            kw["minute_of_hour"], r = divmod(r, 60)
            kw["minute_of_hour_decimal"] = r / 60
    elif sod == 0 and allow24 and draw(st.integers(0, 3)) == 0:
        kw = spell_date(cm, dn - 1, rep)
        kw["hour_of_day"] = 24
    else:
        kw = spell_date(cm, dn, rep)
        kw["hour_of_day"], r = divmod(sod, 3600)
        kw["minute_of_hour"], kw["second_of_minute"] = divmod(r, 60)
    kw["time_zone_hour"], kw["time_zone_minute"] = tzh, tzm
    kw["num_expanded_year_digits"] = expanded_digits_for(kw["year"])
    return kw


MAG = {
    "seconds": [0, 1, 59, 60, 61, 3599, 3600, 3601, 86399, 86400, 86401],
    "minutes": [0, 1, 59, 60, 61, 1439, 1440, 1441],
    "hours": [0, 1, 23, 24, 25, 47, 48, 49, 8760, 8784],
    "days": [0, 1, 2, 27, 28, 29, 30, 31, 59, 60, 359, 360, 361, 364, 365, 366,
             367, 730, 731, 1461, 36524, 36525, 146097],
}


@st.composite
def st_exact_duration_kw(draw, max_days=2000, decimals=False, signs="any"):
    """kwargs of an exact Duration: week form or a subset of d/h/m/s.

    signs: "any" (one sign per duration, either), "mixed" (per component),
    "pos", "neg".
    """
    if draw(st.integers(0, 7)) == 0:
        w = draw(st.one_of(st.integers(-max_days // 7, max_days // 7),
                           st.sampled_from([1, -1, 52, 53, -52, -53])))
        if signs == "pos":
            w = abs(w)
        elif signs == "neg":
            w = -abs(w)
        return {"weeks": w}
    lim = {"days": max_days, "hours": max_days * 24,
           "minutes": max_days * 1440, "seconds": max_days * 86400}
    units = draw(st.lists(st.sampled_from(["days", "hours", "minutes", "seconds"]),
                          min_size=1, max_size=4, unique=True))
    sign = draw(st.sampled_from([1, -1]))
    if signs == "pos":
        sign = 1
    elif signs == "neg":
        sign = -1
    kw = {}
    for u in units:
        v = draw(st.one_of(
            st.sampled_from([x for x in MAG[u] if x <= lim[u]]),
            st.integers(0, 70), st.integers(0, lim[u]), st.integers(0, 400)))
        if decimals and u != "days" and draw(st.booleans()):
            v = v + _dec(draw, False)
        s = sign
        if signs == "mixed":
            s = draw(st.sampled_from([1, -1]))
        kw[u] = v * s
    return kw


@st.composite
def st_nominal_kw(draw, max_years=400, max_months=60):
    """kwargs with years and/or months (either sign), possibly 0."""
    kw = {}
    k = draw(st.integers(0, 2))
    if k in (0, 2):
        kw["months"] = draw(st.one_of(
            st.sampled_from([1, -1, 2, -2, 11, -11, 12, -12, 13, -13, 23, 24, -24]),
            st.integers(-max_months, max_months)))
    if k in (1, 2):
        kw["years"] = draw(st.one_of(
            st.sampled_from([1, -1, 4, -4, 100, -100, 400, -400]),
            st.integers(-max_years, max_years)))
    return kw
