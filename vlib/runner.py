"""Shared runner: sharding, seeding, Hypothesis driving, evidence, replay.

Contract of a check module ``vlib.checks.cNN``::

    PID = "C01"
    RULE = "how cases are generated / what is non-trivial"
    ASSUMPTIONS = ["..."]
    def run_shard(ctx): ...            # runs inside a fresh worker process
    def check_case(case) -> Outcome    # pure function of (code, case); used by
                                       # the Hypothesis bodies and by replay

``case`` is always a JSON-serialisable dict so that a failing case can be
written to a replay file and re-evaluated with no Hypothesis involved.
"""
import hashlib
import importlib
import json
import multiprocessing
import os
import signal
import sys
import time
import traceback
from collections import Counter

VERIF_DIR = os.path.dirname(os.path.dirname(os.path.abspath(__file__)))
REPO = os.environ.get("VERIF_REPO", "/repo")
NSHARDS = 16
# development aid (mutant sweeps): scale every example budget; registered
# commands never set it
SCALE = float(os.environ.get("VERIF_SCALE", "1") or 1)


def import_library():
    """Import the library from the working tree under test and assert it."""
    if REPO not in sys.path[:1]:
        sys.path.insert(0, REPO)
    import metomi.isodatetime as pkg
    here = os.path.realpath(pkg.__file__)
    if not here.startswith(os.path.realpath(REPO) + os.sep):
        raise RuntimeError("library imported from %s, not from %s" % (here, REPO))
    return pkg


class Outcome:
    """Result of evaluating the oracle on one case."""
    __slots__ = ("fail", "nontrivial", "classes", "known", "skip", "weight",
                 "keys", "distinct")

    def __init__(self, fail=None, nontrivial=False, classes=(), known=None,
                 skip=False, weight=1, keys=None, distinct=0):
        self.keys = keys            # optional: distinct non-trivial sub-cases
        self.distinct = distinct    # optional: count of sub-cases that are
        #                             distinct by construction (enumerations
        #                             too large to keep as a key set)
        self.fail = fail            # None or a message "clause: details"
        self.nontrivial = nontrivial
        self.classes = classes      # iterable of class labels for the histogram
        self.known = known          # id of a known finding that explains it
        self.skip = skip            # case outside the property's domain
        self.weight = weight        # oracle evaluations represented by the case


class Violation(Exception):
    pass


class Hang(BaseException):
    """Raised by the watchdog; BaseException so library code cannot eat it."""


def digest(obj):
    s = json.dumps(obj, sort_keys=True, default=str).encode()
    return hashlib.blake2b(s, digest_size=8).hexdigest()


def shard_seed(seed, pid, index):
    h = hashlib.blake2b(("%s/%s/%s" % (seed, pid, index)).encode(),
                        digest_size=8).digest()
    return int.from_bytes(h, "big") >> 1


class Ctx:
    """Per-shard collector handed to ``run_shard``."""

    def __init__(self, pid, tier, seed, index, nshards):
        self.pid, self.tier, self.base_seed = pid, tier, seed
        self.index, self.nshards = index, nshards
        self.seed = shard_seed(seed, pid, index)
        self.evaluations = 0
        self.cases = 0
        self.skipped = 0
        self.nontrivial = set()
        self.distinct_counted = 0
        self.classes = Counter()
        self.known_hits = Counter()
        self.samples = {}           # digest -> case (keep smallest digests)
        self.first_samples = []
        self.failures = []          # [(case, message)]
        self.fail_events = 0
        self.history = []           # earlier cases of this shard (bounded)
        self.keep_history = True
        self.extra = {}
        self._first_fail_t = None
        self.shrink_budget_s = 60 if tier == "quick" else 240
        # typical cases take 0.1-50 ms (the slowest legitimate ones, day walks
        # over millennia, a few seconds): a >= 1000x margin
        self.case_timeout_s = 300

    # -- bookkeeping ------------------------------------------------------
    def count(self, case, out):
        self.cases += 1
        if self.keep_history:
            self.history.append(case)
            if len(self.history) > 4000:
                del self.history[:1000]
        if out.skip:
            self.skipped += 1
            return
        self.evaluations += out.weight
        for c in out.classes:
            self.classes[c] += 1
        if out.known:
            self.known_hits[out.known] += 1
        self.distinct_counted += out.distinct
        if out.keys is not None:
            fresh = not self.nontrivial.issuperset(out.keys)
            self.nontrivial.update(out.keys)
            if fresh and out.nontrivial:
                d = digest(case)
                if len(self.first_samples) < 2:
                    self.first_samples.append(case)
                self.samples[d] = case
                if len(self.samples) > 3:
                    del self.samples[max(self.samples)]
        elif out.nontrivial:
            d = digest(case)
            if d not in self.nontrivial:
                self.nontrivial.add(d)
                if len(self.first_samples) < 2:
                    self.first_samples.append(case)
                self.samples[d] = case
                if len(self.samples) > 3:
                    del self.samples[max(self.samples)]

    def note_failure(self, case, message):
        if self._first_fail_t is None:
            self._first_fail_t = time.monotonic()
        if self.keep_history:
            case = dict(case, _history=list(self.history))
        self.fail_events += 1
        self.failures.append((case, message))
        if len(self.failures) > 1 and self.failures[-2][1].split(":")[0] == \
                message.split(":")[0]:
            # keep only the latest (smallest) failure of one clause
            del self.failures[-2]

    def observe(self, case, check_case):
        """Evaluate + count + record; returns the Outcome."""
        try:
            with watchdog(max(self.case_timeout_s, 900)):
                out = check_case(case)
        except Hang as e:
            out = Outcome(fail="hang: the case did not finish: %s" % e,
                          classes=["hang"])
        self.count(case, out)
        if out.fail and not out.known:
            self.note_failure(case, out.fail)
        return out

    # -- Hypothesis driver --------------------------------------------------
    def hyp(self, strategy, check_case, max_examples, seed_salt=0):
        """Run ``check_case`` over ``strategy`` under the shard's seed."""
        import hypothesis
        from hypothesis import HealthCheck, Phase, given, settings
        ctx = self
        before = self.fail_events
        max_examples = max(20, int(max_examples * SCALE))

        @hypothesis.seed(self.seed + seed_salt)
        @settings(max_examples=max_examples, database=None, deadline=None,
                  derandomize=False, report_multiple_bugs=False,
                  suppress_health_check=list(HealthCheck),
                  phases=[Phase.generate, Phase.shrink],
                  verbosity=hypothesis.Verbosity.quiet)
        @given(strategy)
        def body(case):
            if ctx._first_fail_t is not None and (
                    time.monotonic() - ctx._first_fail_t > ctx.shrink_budget_s):
                return      # shrink budget used up: end the shrink quickly
            try:
                with watchdog(ctx.case_timeout_s):
                    out = check_case(case)
            except Hang as e:
                # every property here is about operations that return: a case
                # that normally takes milliseconds and does not come back is a
                # violation (recorded with the case), not a harness problem
                out = Outcome(fail="hang: the case did not finish: %s" % e,
                              classes=["hang"])
            ctx.count(case, out)
            if out.fail and not out.known:
                ctx.note_failure(case, out.fail)
                raise Violation(out.fail)

        try:
            body()
        except Hang:
            raise
        except BaseException:       # noqa: B902 - inspected below
            if self.fail_events == before:
                raise               # not ours: a harness error
        return self.fail_events == before

    def machine(self, machine_cls, max_examples, steps, seed_salt=0):
        """Run a RuleBasedStateMachine; the machine reports through ctx."""
        import hypothesis
        from hypothesis import HealthCheck, Phase, settings
        from hypothesis.stateful import run_state_machine_as_test
        before = self.fail_events
        max_examples = max(10, int(max_examples * SCALE))
        st = settings(max_examples=max_examples, stateful_step_count=steps,
                      database=None, deadline=None, derandomize=False,
                      report_multiple_bugs=False,
                      suppress_health_check=list(HealthCheck),
                      phases=[Phase.generate, Phase.shrink],
                      verbosity=hypothesis.Verbosity.quiet)
        try:
            run_state_machine_as_test(
                hypothesis.seed(self.seed + seed_salt)(machine_cls),
                settings=st)
        except Hang:
            raise
        except BaseException:       # noqa: B902
            if self.fail_events == before:
                raise
        return self.fail_events == before

    def shrink_expired(self):
        return self._first_fail_t is not None and (
            time.monotonic() - self._first_fail_t > self.shrink_budget_s)

    def result(self):
        return {
            "index": self.index, "evaluations": self.evaluations,
            "cases": self.cases, "skipped": self.skipped,
            "nontrivial": sorted(self.nontrivial),
            "distinct_counted": self.distinct_counted,
            "classes": dict(self.classes),
            "known_hits": dict(self.known_hits),
            "samples": self.first_samples + [
                c for d, c in sorted(self.samples.items())
                if c not in self.first_samples],
            "failures": self.failures, "extra": self.extra,
        }


class watchdog:
    """``with watchdog(seconds):`` raises Hang in the main thread on expiry.
    Nestable: leaving an inner watchdog re-arms the outer one with the time
    it has left."""

    def __init__(self, seconds):
        self.seconds = seconds

    def _fire(self, signum, frame):
        raise Hang("no result after %.1f s" % self.seconds)

    def __enter__(self):
        self.t0 = time.monotonic()
        self.outer_left = signal.getitimer(signal.ITIMER_REAL)[0]
        self.old = signal.signal(signal.SIGALRM, self._fire)
        signal.setitimer(signal.ITIMER_REAL, self.seconds)

    def __exit__(self, *exc):
        signal.setitimer(signal.ITIMER_REAL, 0)
        signal.signal(signal.SIGALRM, self.old)
        if self.outer_left:
            left = self.outer_left - (time.monotonic() - self.t0)
            signal.setitimer(signal.ITIMER_REAL, max(left, 0.01))
        return False


def load_check(pid):
    return importlib.import_module("vlib.checks.%s" % pid.lower())


def _worker(args):
    pid, tier, seed, index, nshards = args
    try:
        import_library()
        mod = load_check(pid)
        ctx = Ctx(pid, tier, seed, index, nshards)
        mod.run_shard(ctx)
        return ctx.result()
    except BaseException:           # noqa: B902 - reported as harness error
        return {"index": index, "error": traceback.format_exc()}


def load_known_findings():
    path = os.path.join(VERIF_DIR, "known_findings.json")
    with open(path) as f:
        return json.load(f)["findings"]


def open_findings(pid):
    return [f for f in load_known_findings()
            if f["property"] == pid and f["status"] == "open"]


def write_replay(pid, case, message):
    """Write the replay file.  The shard history is kept in it only when the
    bare case does not reproduce in a fresh process (history-dependent)."""
    import subprocess
    d = os.path.join(VERIF_DIR, "replays", "found")
    os.makedirs(d, exist_ok=True)
    bare = {k: v for k, v in case.items() if k != "_history"}
    name = "%s-%s.json" % (pid, digest(bare))
    path = os.path.join(d, name)

    def dump(c, note=None):
        rec = {"property": pid, "message": message, "case": c}
        if note:
            rec["note"] = note
        with open(path, "w") as f:
            json.dump(rec, f, indent=None if "_history" in c else 1,
                      sort_keys=True, default=str)
    dump(bare)
    if "_history" in case:
        try:
            r = subprocess.run(
                [sys.executable, os.path.join(VERIF_DIR, "run_check.py"), pid,
                 "--replay", path], capture_output=True, timeout=600)
            if r.returncode == 0:
                dump(case, "history-dependent: the bare case passes in a fresh"
                     " process; _history holds the earlier cases of the shard")
        except Exception:           # noqa: BLE001 - keep the bare replay
            pass
    return os.path.relpath(path, VERIF_DIR)


def regression_cases(pid):
    d = os.path.join(VERIF_DIR, "replays", "regress", pid)
    if not os.path.isdir(d):
        return []
    out = []
    for name in sorted(os.listdir(d)):
        if name.endswith(".json"):
            with open(os.path.join(d, name)) as f:
                out.append((os.path.join("replays", "regress", pid, name),
                            json.load(f)))
    return out


def run_check(pid, tier, seed):
    t0 = time.time()
    mod = load_check(pid)
    nshards = getattr(mod, "NSHARDS", NSHARDS)
    procs = min(nshards, int(os.environ.get("VERIF_PROCS", "16")))
    jobs = [(pid, tier, seed, i, nshards) for i in range(nshards)]
    mpctx = multiprocessing.get_context("fork")
    with mpctx.Pool(procs, maxtasksperchild=1) as pool:
        results = pool.map(_worker, jobs, chunksize=1)
    errors = [r for r in results if "error" in r]
    if errors:
        for r in errors:
            sys.stderr.write("HARNESS ERROR in shard %s:\n%s\n" % (
                r["index"], r["error"]))
        return 2

    import_library()
    violations = []         # (replay path, message)
    seen_sig = set()

    # regression tier: saved cases re-evaluated with no Hypothesis involved
    regress_n = 0
    for path, rec in regression_cases(pid):
        regress_n += 1
        out = mod.check_case(rec["case"])
        if out.fail and not out.known:
            violations.append((path, out.fail))
            seen_sig.add(out.fail.split(":")[0])

    evaluations = sum(r["evaluations"] for r in results) + regress_n
    nontrivial = set()
    classes, known_hits = Counter(), Counter()
    samples = []
    extra = {}
    for r in results:
        nontrivial.update(r["nontrivial"])
        classes.update(r["classes"])
        known_hits.update(r["known_hits"])
        for s in r["samples"][:2]:
            if len(samples) < 8:
                samples.append(s)
        for k, v in r["extra"].items():
            if isinstance(v, (int, float)) and not isinstance(v, bool):
                extra[k] = extra.get(k, 0) + v
            else:
                extra.setdefault(k, v)
        for case, message in r["failures"]:
            sig = message.split(":")[0]
            if sig in seen_sig:
                continue
            seen_sig.add(sig)
            violations.append((write_replay(pid, case, message), message))

    # known findings: re-run each open finding's canonical example
    known_lines = []
    for f in open_findings(pid):
        out = mod.check_case(f["case"])
        if out.fail and out.known == f["id"]:
            known_lines.append("KNOWN-FINDING: property=%s %s [%s]" % (
                pid, f["what"], f["id"]))
        elif out.fail:
            violations.append((write_replay(pid, f["case"], out.fail),
                               out.fail))
        else:
            known_lines.append(
                "NOTE: listed finding %s of %s no longer reproduces on this "
                "tree" % (f["id"], pid))

    wall = time.time() - t0
    coverage = {
        "evaluations": int(evaluations),
        "distinct_nontrivial": len(nontrivial) + sum(
            r["distinct_counted"] for r in results),
        "rule": mod.RULE,
        "samples": samples or [{"note": "no non-trivial sample recorded"}],
        "classes": dict(sorted(classes.items())),
        "known_finding_hits": dict(known_hits),
        "cases_generated": sum(r["cases"] for r in results),
        "cases_outside_domain": sum(r["skipped"] for r in results),
        "regression_cases_replayed": regress_n,
        "shards": nshards,
    }
    coverage.update(extra)
    if getattr(mod, "EXHAUSTIVE", None):
        coverage["exhaustive"] = bool(mod.EXHAUSTIVE(tier))
        coverage["exhaustive_note"] = mod.EXHAUSTIVE_NOTE
    evidence = {
        "property_id": pid, "tier": tier, "seed": int(seed),
        "level": "exploration", "coverage": coverage,
        "assumptions": list(getattr(mod, "ASSUMPTIONS", [])),
        "wall_s": round(wall, 2), "violations": len(violations),
        "repo": REPO,
    }
    os.makedirs(os.path.join(VERIF_DIR, "evidence"), exist_ok=True)
    with open(os.path.join(VERIF_DIR, "evidence", pid + ".json"), "w") as f:
        json.dump(evidence, f, indent=1, sort_keys=True, default=str)
        f.write("\n")

    for line in known_lines:
        print(line)
    for path, message in violations:
        print("VIOLATION property=%s replay=%s" % (pid, path))
        print("  " + message[:600])
    print("%s property=%s tier=%s seed=%s evaluations=%d distinct_nontrivial=%d"
          " known_hits=%d wall=%.1fs" % (
              "FAIL" if violations else "OK", pid, tier, seed, evaluations,
              coverage["distinct_nontrivial"], sum(known_hits.values()), wall))
    return 1 if violations else 0


def run_replay(pid, path):
    import_library()
    mod = load_check(pid)
    with open(path) as f:
        rec = json.load(f)
    case = rec["case"]
    for earlier in case.get("_history", []):
        mod.check_case(earlier)     # re-create the process history
    out = mod.check_case(case)
    if out.fail and not out.known:
        print("VIOLATION property=%s replay=%s" % (pid, path))
        print("  " + out.fail[:1000])
        return 1
    if out.fail:
        print("KNOWN-FINDING: property=%s %s" % (pid, out.known))
    print("OK replay property=%s case passes" % pid)
    return 0


def main(argv=None):
    import argparse
    ap = argparse.ArgumentParser()
    ap.add_argument("pid")
    ap.add_argument("--tier", default=os.environ.get("VERIF_TIER") or "quick",
                    choices=["quick", "thorough"])
    ap.add_argument("--replay")
    args = ap.parse_args(argv)
    seed = int(os.environ.get("VERIF_SEED", "1") or 1)
    try:
        if args.replay:
            return run_replay(args.pid.upper(), args.replay)
        return run_check(args.pid.upper(), args.tier, seed)
    except SystemExit:
        raise
    except BaseException:           # noqa: B902
        traceback.print_exc()
        return 2
