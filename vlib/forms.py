"""The documented ISO 8601 expression forms, written out by hand.

This is a *copy of the specification* (the tables in the library's
documentation at the pinned commit), deliberately not read from the library at
run time: a table row deleted from the library must show up as a refusal.

Each form is a token list.  ``encode`` renders field values to text,
``decode`` reads text of a known form back to field values - both are
independent of the library's regex machinery (fixed-width positional walk).

Tokens
  date: "S" year sign, "X" expanded digits (n), "CC" century, "YY" year of
        century, "z" year of decade, "MM", "DD", "DDD", "W" literal, "ww", "D"
        weekday, "-" literal
  time: "hh", "mm", "ss", ":" literal, ",f"/".f" decimal fraction of the
        preceding unit, "-" literal (truncated)
  zone: "Z", "s" sign, "hh", "mm", ":"
"""
import re

# (expression as documented, tokens, notation, type, representation)
_D = []


def _date(expr, notation, typ, rep):
    toks = []
    i = 0
    while i < len(expr):
        for t in ("+X", "CC", "YY", "MM", "DDD", "DD", "Www", "W", "D", "z", "-"):
            if expr.startswith(t, i):
                if t == "+X":
                    toks += ["S", "X"]
                elif t == "Www":
                    toks += ["W", "ww"]
                else:
                    toks.append(t)
                i += len(t)
                break
        else:
            raise ValueError(expr)
    _D.append({"expr": expr, "toks": toks, "notation": notation, "type": typ,
               "rep": rep})


for e, r in (("CCYYMMDD", "c"), ("+XCCYYMMDD", "c"), ("CCYYDDD", "o"),
             ("+XCCYYDDD", "o"), ("CCYYWwwD", "w"), ("+XCCYYWwwD", "w")):
    _date(e, "basic", "complete", r)
for e, r in (("CCYY-MM", "c"), ("CCYY", "c"), ("CC", "c"), ("+XCCYY-MM", "c"),
             ("+XCCYY", "c"), ("+XCC", "c"), ("CCYYWww", "w"),
             ("+XCCYYWww", "w")):
    _date(e, "basic", "reduced", r)
for e, r in (("CCYY-MM-DD", "c"), ("+XCCYY-MM-DD", "c"), ("CCYY-DDD", "o"),
             ("+XCCYY-DDD", "o"), ("CCYY-Www-D", "w"), ("+XCCYY-Www-D", "w")):
    _date(e, "extended", "complete", r)
for e, r in (("CCYY-MM", "c"), ("+XCCYY-MM", "c"), ("CCYY-Www", "w"),
             ("+XCCYY-Www", "w")):
    _date(e, "extended", "reduced", r)
for e, r in (("-YYMM", "c"), ("-YY", "c"), ("--MMDD", "c"), ("--MM", "c"),
             ("---DD", "c"), ("YYMMDD", "c"), ("YYDDD", "o"), ("-DDD", "o"),
             ("YYWwwD", "w"), ("YYWww", "w"), ("-zWwwD", "w"), ("-zWww", "w"),
             ("-WwwD", "w"), ("-Www", "w"), ("-W-D", "w")):
    _date(e, "basic", "truncated", r)
for e, r in (("-YY-MM", "c"), ("--MM-DD", "c"), ("YY-MM-DD", "c"),
             ("YY-DDD", "o"), ("-DDD", "o"), ("YY-Www-D", "w"), ("YY-Www", "w"),
             ("-z-WwwD", "w"), ("-z-Www", "w"), ("-Www-D", "w")):
    _date(e, "extended", "truncated", r)

DATE_FORMS = _D

_T = []


def _time(expr, notation, typ):
    toks = []
    i = 0
    while i < len(expr):
        for t in ("hh", "mm", "ss", ",ii", ".ii", ",nn", ".nn", ",tt", ".tt",
                  ":", "-"):
            if expr.startswith(t, i):
                toks.append(t[0] + "f" if t[0] in ",." else t)
                i += len(t)
                break
        else:
            raise ValueError(expr)
    _T.append({"expr": expr, "toks": toks, "notation": notation, "type": typ})


for e in ("hhmmss", "hhmmss,tt", "hhmm,nn", "hh,ii", "hhmmss.tt", "hhmm.nn",
          "hh.ii"):
    _time(e, "basic", "complete")
for e in ("hhmm", "hh"):
    _time(e, "basic", "reduced")
for e in ("-mmss", "-mm", "--ss", "-mmss,tt", "-mm,nn", "--ss,tt", "-mmss.tt",
          "-mm.nn", "--ss.tt"):
    _time(e, "basic", "truncated")
for e in ("hh:mm:ss", "hh:mm:ss,tt", "hh:mm,nn", "hh,ii", "hh:mm:ss.tt",
          "hh:mm.nn", "hh.ii"):
    _time(e, "extended", "complete")
for e in ("hh:mm", "hh"):
    _time(e, "extended", "reduced")
for e in ("-mm:ss", "-mm", "--ss", "-mm:ss,tt", "-mm,nn", "--ss,tt",
          "-mm:ss.tt", "-mm.nn", "--ss.tt"):
    _time(e, "extended", "truncated")

TIME_FORMS = _T

ZONE_FORMS = [
    {"expr": "Z", "toks": ["Z"], "notation": "basic"},
    {"expr": "+hh", "toks": ["s", "hh"], "notation": "basic"},
    {"expr": "+hhmm", "toks": ["s", "hh", "mm"], "notation": "basic"},
    {"expr": "Z", "toks": ["Z"], "notation": "extended"},
    {"expr": "+hh", "toks": ["s", "hh"], "notation": "extended"},
    {"expr": "+hh:mm", "toks": ["s", "hh", ":", "mm"], "notation": "extended"},
]


def date_form(expr, notation):
    for f in DATE_FORMS:
        if f["expr"] == expr and f["notation"] == notation:
            return f
    raise KeyError((expr, notation))


def time_form(expr, notation):
    for f in TIME_FORMS:
        if f["expr"] == expr and f["notation"] == notation:
            return f
    raise KeyError((expr, notation))


def zone_form(expr, notation):
    for f in ZONE_FORMS:
        if f["expr"] == expr and f["notation"] == notation:
            return f
    raise KeyError((expr, notation))


# ---------------------------------------------------------------------------
# encoding


def encode_date(form, v, xdigits=2):
    """v: dict with year (int, may be negative) or yy/z, month, day, doy,
    week, wday as needed."""
    out = []
    y = v.get("year")
    for t in form["toks"]:
        if t == "S":
            out.append("-" if y < 0 else "+")
        elif t == "X":
            out.append("%0*d" % (xdigits, abs(y) // 10000) if xdigits else "")
        elif t == "CC":
            out.append("%02d" % ((abs(y) % 10000) // 100))
        elif t == "YY":
            out.append("%02d" % (abs(y) % 100 if y is not None else v["yy"]))
        elif t == "z":
            out.append("%d" % v["z"])
        elif t == "MM":
            out.append("%02d" % v["month"])
        elif t == "DD":
            out.append("%02d" % v["day"])
        elif t == "DDD":
            out.append("%03d" % v["doy"])
        elif t == "ww":
            out.append("%02d" % v["week"])
        elif t == "D":
            out.append("%d" % v["wday"])
        else:
            out.append(t)
    return "".join(out)


def encode_time(form, v):
    """v: hour, minute, second ints; frac: digit string for the decimal."""
    out = []
    for t in form["toks"]:
        if t == "hh":
            out.append("%02d" % v["hour"])
        elif t == "mm":
            out.append("%02d" % v["minute"])
        elif t == "ss":
            out.append("%02d" % v["second"])
        elif t in (",f", ".f"):
            out.append(t[0] + v["frac"])
        else:
            out.append(t)
    return "".join(out)


def zone_sign(h, m):
    return "-" if (h < 0 or m < 0) else "+"


def encode_zone(form, h, m):
    out = []
    for t in form["toks"]:
        if t == "Z":
            out.append("Z")
        elif t == "s":
            out.append(zone_sign(h, m))
        elif t == "hh":
            out.append("%02d" % abs(h))
        elif t == "mm":
            out.append("%02d" % abs(m))
        else:
            out.append(t)
    return "".join(out)


# ---------------------------------------------------------------------------
# decoding (fixed-width positional walk; raises ValueError on mismatch)


def _take(text, i, n):
    s = text[i:i + n]
    if len(s) != n or not s.isdigit() or not s.isascii():
        raise ValueError("expected %d digits at %d in %r" % (n, i, text))
    return int(s), i + n


def decode_date(form, text, xdigits=2):
    v = {}
    i = 0
    sign = 1
    x = 0
    cc = yy = None
    for t in form["toks"]:
        if t == "S":
            if text[i:i + 1] not in ("+", "-"):
                raise ValueError("expected sign in %r" % text)
            sign = -1 if text[i] == "-" else 1
            i += 1
        elif t == "X":
            if xdigits:
                x, i = _take(text, i, xdigits)
        elif t == "CC":
            cc, i = _take(text, i, 2)
        elif t == "YY":
            yy, i = _take(text, i, 2)
        elif t == "z":
            v["z"], i = _take(text, i, 1)
        elif t == "MM":
            v["month"], i = _take(text, i, 2)
        elif t == "DD":
            v["day"], i = _take(text, i, 2)
        elif t == "DDD":
            v["doy"], i = _take(text, i, 3)
        elif t == "ww":
            v["week"], i = _take(text, i, 2)
        elif t == "D":
            v["wday"], i = _take(text, i, 1)
        else:
            if text[i:i + len(t)] != t:
                raise ValueError("expected %r at %d in %r" % (t, i, text))
            i += len(t)
    if i != len(text):
        raise ValueError("trailing text in %r" % text)
    if cc is not None:
        v["year"] = sign * (x * 10000 + cc * 100 + (yy or 0))
    elif yy is not None:
        v["yy"] = yy
    return v


def decode_time(form, text):
    v = {}
    i = 0
    for t in form["toks"]:
        if t == "hh":
            v["hour"], i = _take(text, i, 2)
        elif t == "mm":
            v["minute"], i = _take(text, i, 2)
        elif t == "ss":
            v["second"], i = _take(text, i, 2)
        elif t in (",f", ".f"):
            if text[i:i + 1] != t[0]:
                raise ValueError("expected %r in %r" % (t[0], text))
            j = i + 1
            while j < len(text) and text[j].isdigit():
                j += 1
            if j == i + 1:
                raise ValueError("empty fraction in %r" % text)
            v["frac"] = text[i + 1:j]
            i = j
        else:
            if text[i:i + len(t)] != t:
                raise ValueError("expected %r at %d in %r" % (t, i, text))
            i += len(t)
    if i != len(text):
        raise ValueError("trailing text in %r" % text)
    return v


def decode_zone(form, text):
    i = 0
    sign = 1
    h = m = 0
    for t in form["toks"]:
        if t == "Z":
            if text[i:i + 1] != "Z":
                raise ValueError("expected Z in %r" % text)
            i += 1
        elif t == "s":
            if text[i:i + 1] not in ("+", "-"):
                raise ValueError("expected sign in %r" % text)
            sign = -1 if text[i] == "-" else 1
            i += 1
        elif t == "hh":
            h, i = _take(text, i, 2)
        elif t == "mm":
            m, i = _take(text, i, 2)
        else:
            if text[i:i + 1] != t:
                raise ValueError("expected %r in %r" % (t, text))
            i += 1
    if i != len(text):
        raise ValueError("trailing text in %r" % text)
    return sign * h, sign * m


ZONE_LEN = {"Z": 1, "+hh": 3, "+hhmm": 5, "+hh:mm": 6}


def decode_datetime(text, dform, tform, zform, xdigits=2):
    """Decode 'date[Ttime[zone]]' of known forms -> (date v, time v, zone)."""
    date, sep, rest = text.partition("T")
    dv = decode_date(dform, date, xdigits)
    if tform is None:
        if sep:
            raise ValueError("unexpected time part in %r" % text)
        return dv, None, None
    if not sep:
        raise ValueError("missing time part in %r" % text)
    zone = None
    if zform is not None:
        n = ZONE_LEN[zform["expr"]]
        zone = decode_zone(zform, rest[-n:])
        rest = rest[:-n]
    return dv, decode_time(tform, rest), zone
