#!/venv/bin/python
"""Single-mode oracle process for C15: sets ONE calendar mode once, then
answers JSON ops (one per line) for ever.  The CLI op runs main() with
--calendar pinned to this process's mode, so the mode never changes."""
import json
import os
import sys

HERE = os.path.dirname(os.path.dirname(os.path.dirname(os.path.abspath(__file__))))
sys.path.insert(0, HERE)

from vlib import runner  # noqa: E402

runner.import_library()

from vlib import modeops  # noqa: E402
from metomi.isodatetime import data  # noqa: E402


def main():
    mode = sys.argv[1]
    data.Calendar.default().set_mode(mode)
    for line in sys.stdin:
        op = json.loads(line)
        if op.get("op") == "cli":
            from vlib.checks import c19
            out, err, code, exc = c19.run_main(
                ["--calendar=" + mode] + op["argv"], {}, [0, 0, 0, 0],
                reset_mode=mode)
            res = [out, None if code is None else str(type(code).__name__),
                   None if exc is None else type(exc).__name__]
        else:
            res = modeops.execute(op)
        if data.Calendar.default().mode != mode:
            res = {"worker_error": "mode changed to %r" % data.Calendar.default().mode}
        sys.stdout.write(json.dumps(res) + "\n")
        sys.stdout.flush()


if __name__ == "__main__":
    main()
