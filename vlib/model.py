"""Bridging between JSON cases, library objects and the reference model.

Inputs are interpreted from the constructor kwargs the *generator* chose;
results are interpreted from the result's *native* stored representation
(through the public ``get_props()``), never through the library's own
conversion functions.
"""
from fractions import Fraction

from vlib import refcal as R

US = Fraction(1, 10 ** 6)


def lib():
    from metomi.isodatetime import data
    return data


class use_mode:
    """Context manager: set the process-wide calendar mode, restore after."""

    def __init__(self, mode):
        self.mode = mode

    def __enter__(self):
        lib().Calendar.default().set_mode(self.mode)

    def __exit__(self, *exc):
        lib().Calendar.default().set_mode("gregorian")
        return False


# ---------------------------------------------------------------------------
# points


def kw_rep(kw):
    if "month_of_year" in kw or "day_of_month" in kw:
        return "c"
    if "day_of_year" in kw:
        return "o"
    if "week_of_year" in kw or "day_of_week" in kw:
        return "w"
    return "c"


def kw_dn(cm, kw):
    y = kw["year"]
    rep = kw_rep(kw)
    if rep == "c":
        return R.dn_from_cal(cm, y, kw.get("month_of_year", 1),
                             kw.get("day_of_month", 1))
    if rep == "o":
        return R.dn_from_ord(cm, y, kw["day_of_year"])
    return R.dn_from_week(cm, y, kw.get("week_of_year", 1),
                          kw.get("day_of_week", 1))


def kw_sod(kw):
    """Exact second of day the constructor kwargs denote (floats as stored)."""
    h = kw.get("hour_of_day", 0)
    if "hour_of_day_decimal" in kw:
        return Fraction(h + float(kw["hour_of_day_decimal"])) * 3600
    m = kw.get("minute_of_hour", 0)
    if "minute_of_hour_decimal" in kw:
        return h * 3600 + Fraction(m + float(kw["minute_of_hour_decimal"])) * 60
    s = kw.get("second_of_minute", 0)
    if "second_of_minute_decimal" in kw:
        s = Fraction(s + float(kw["second_of_minute_decimal"]))
    return h * 3600 + m * 60 + Fraction(s)


def kw_form(kw):
    if kw.get("hour_of_day") == 24:
        return "24"
    if "hour_of_day_decimal" in kw:
        return "h,ii"
    if "minute_of_hour_decimal" in kw:
        return "hm,nn"
    if "second_of_minute_decimal" in kw:
        return "hms,tt"
    return "hms"


def kw_tz(kw):
    return kw.get("time_zone_hour", 0) * 3600 + kw.get("time_zone_minute", 0) * 60


def kw_instant(cm, kw):
    return Fraction(kw_dn(cm, kw)) * 86400 + kw_sod(kw) - kw_tz(kw)


def make_point(kw):
    """TimePoint(**kw).  The UTC offset is also given the way a caller may
    spell it with one keyword only: hours alone when the minutes are zero,
    minutes alone when the hours are zero (chosen from the values, so a case
    always builds the same call)."""
    kw = dict(kw)
    tzh, tzm = kw.get("time_zone_hour"), kw.get("time_zone_minute")
    pick = (kw.get("year", 0) + (kw.get("second_of_minute") or 0) +
            (kw.get("minute_of_hour") or 0)) % 3 == 0
    if pick and not kw.get("truncated") and isinstance(tzh, int) and \
            isinstance(tzm, int):
        if tzm == 0 and tzh != 0:
            del kw["time_zone_minute"]
        elif tzh == 0 and tzm != 0:
            del kw["time_zone_hour"]
    return lib().TimePoint(**kw)


class Native:
    """A library TimePoint read back through its native stored fields."""

    def __init__(self, cm, p, allow24=False, tol_edge=False):
        self.problems = []
        f = dict(p.get_props())
        self.f = f
        y = f["year"]
        self.year = y
        ints = [("year", y)]
        if f["month_of_year"] is not None:
            self.rep = "c"
            mo, d = f["month_of_year"], f["day_of_month"]
            ints += [("month_of_year", mo), ("day_of_month", d)]
            ok = all(type(v) is int for _, v in ints) and R.valid_cal(cm, y, mo, d)
            self.dn = R.dn_from_cal(cm, y, mo, d) if ok else None
            self.date = (y, mo, d)
        elif f["day_of_year"] is not None:
            self.rep = "o"
            doy = f["day_of_year"]
            ints += [("day_of_year", doy)]
            ok = all(type(v) is int for _, v in ints) and R.valid_ord(cm, y, doy)
            self.dn = R.dn_from_ord(cm, y, doy) if ok else None
            self.date = (y, doy)
        elif f["week_of_year"] is not None:
            self.rep = "w"
            w, wd = f["week_of_year"], f["day_of_week"]
            ints += [("week_of_year", w), ("day_of_week", wd)]
            ok = all(type(v) is int for _, v in ints) and R.valid_week(cm, y, w, wd)
            self.dn = R.dn_from_week(cm, y, w, wd) if ok else None
            self.date = (y, w, wd)
        else:
            self.rep = "?"
            ok = False
            self.dn = None
            self.date = (y,)
        if not ok:
            self.problems.append("date fields %r are not a real %s date of "
                                 "mode %s (or not ints)" % (
                                     self.date, self.rep, cm))
        for nm, other in (("month_of_year", ("day_of_year", "week_of_year",
                                             "day_of_week")),
                          ("day_of_year", ("month_of_year", "day_of_month",
                                           "week_of_year", "day_of_week")),
                          ("week_of_year", ("month_of_year", "day_of_month",
                                            "day_of_year"))):
            if f[nm] is not None and any(f[o] is not None for o in other):
                self.problems.append("mixed representations in one value")
        h, m, s = f["hour_of_day"], f["minute_of_hour"], f["second_of_minute"]
        self.h, self.m, self.s = h, m, s
        hmax_ok = (0 <= h < 24) or (allow24 and h == 24 and not m and not s)
        if not hmax_ok:
            self.problems.append("hour %r outside [0,24)" % (h,))
        if m is not None and not 0 <= m < 60:
            self.problems.append("minute %r outside [0,60)" % (m,))
        if s is not None and not 0 <= s < 60:
            self.problems.append("second %r outside [0,60)" % (s,))
        if m is None and s is not None:
            self.problems.append("second present but minute absent")
        # a fraction lives on the smallest field present only
        if m is not None and h is not None and abs(h - round(h)) > 1e-9:
            self.problems.append("hour %r carries a fraction although a "
                                 "minute field is present" % (h,))
        if s is not None and m is not None and abs(m - round(m)) > 1e-9:
            self.problems.append("minute %r carries a fraction although a "
                                 "second field is present" % (m,))
        self.sod = R.sod_from_fields(h, m, s)
        tz = f["time_zone"]
        self.tzh, self.tzm = tz.hours, tz.minutes
        self.tz = tz.hours * 3600 + tz.minutes * 60
        if tz.unknown:
            self.problems.append("unknown time zone on a full point")
        if not (-99 <= tz.hours <= 99 and -59 <= tz.minutes <= 59 and
                tz.hours * tz.minutes >= 0):
            self.problems.append("zone fields out of range/conflicting sign")
        self.form = ("h,ii" if m is None else "hm,nn" if s is None else "hms")
        self.instant = (None if self.dn is None else
                        Fraction(self.dn) * 86400 + self.sod - self.tz)


# ---------------------------------------------------------------------------
# durations


def make_duration(dkw):
    return lib().Duration(**dkw)


def dkw_len(dkw):
    """Exact length in seconds of the exact part of duration kwargs."""
    return (Fraction(dkw.get("weeks", 0)) * 7 * 86400 +
            Fraction(dkw.get("days", 0)) * 86400 +
            Fraction(dkw.get("hours", 0)) * 3600 +
            Fraction(dkw.get("minutes", 0)) * 60 +
            Fraction(dkw.get("seconds", 0)))


def dur_len(d):
    """Exact length of the exact part of a library Duration (native fields)."""
    if d.get_is_in_weeks():
        return Fraction(d.weeks) * 7 * 86400
    return (Fraction(d.days) * 86400 + Fraction(d.hours) * 3600 +
            Fraction(d.minutes) * 60 + Fraction(d.seconds))


def dkw_is_int(dkw):
    return all(isinstance(v, int) or float(v).is_integer()
               for v in dkw.values())


def dkw_all_zero(dkw):
    return not any(dkw.values())


def kw_is_int(kw):
    return not any(k.endswith("_decimal") for k in kw)


def fmt_kw(kw):
    """Readable one-line spelling of point kwargs for messages."""
    rep = kw_rep(kw)
    y = kw["year"]
    if rep == "c":
        d = "%d-%02d-%02d" % (y, kw.get("month_of_year", 1), kw.get("day_of_month", 1))
    elif rep == "o":
        d = "%d-%03d" % (y, kw["day_of_year"])
    else:
        d = "%d-W%02d-%d" % (y, kw.get("week_of_year", 1), kw.get("day_of_week", 1))
    t = "T%s" % kw.get("hour_of_day", 0)
    if "hour_of_day_decimal" in kw:
        t += "+%r h" % kw["hour_of_day_decimal"]
    else:
        t += ":%s" % kw.get("minute_of_hour", 0)
        if "minute_of_hour_decimal" in kw:
            t += "+%r m" % kw["minute_of_hour_decimal"]
        else:
            t += ":%s" % kw.get("second_of_minute", 0)
            if "second_of_minute_decimal" in kw:
                t += "+%r s" % kw["second_of_minute_decimal"]
    tzh, tzm = kw.get("time_zone_hour", 0), kw.get("time_zone_minute", 0)
    return "%s%s%s%02d:%02d" % (d, t, "-" if (tzh < 0 or tzm < 0) else "+",
                               abs(tzh), abs(tzm))


def sp(obj):
    """str() that never raises (a point may be unprintable in its own
    notation, e.g. a negative year with no expanded digits)."""
    try:
        return str(obj)
    except Exception as e:      # noqa: BLE001
        try:
            return "<unprintable %s: %r>" % (type(e).__name__, dict(obj.get_props()))
        except Exception:       # noqa: BLE001
            return "<unprintable %s>" % type(e).__name__
