"""Bytes <-> C09 fuzz case codec shared by the atheris target and the check."""

TOKENS = list("0123456789-+:.,TZWPRYMDHS/ ") + [
    "T00", "00", "01", "12", "24", "59", "60", "99", "2000", "0000", "9999",
    "-01-01", "-001", "-W01-1", "W53", "T24:00", "T23:59:59", "Z", "+00:00",
    "-00:30", "+9959", "P1D", "P1M", "P1Y", "PT1H", "P1W", "PT0S", "R/", "R1/",
    "R3/", "R10/", "/P", "--", "---", "T-", "T--", ",5", ".5", "e9", "e309",
    "٣", "１", "−", "\x00", "\n", "x", "%", "(", "[", "\\", "_"]

CONFIGS = [
    {"xd": 2, "only_basic": False, "assumed": [0, 0], "unknown": False},
    {"xd": 2, "only_basic": False, "assumed": None, "unknown": True},
    {"xd": 0, "only_basic": False, "assumed": None, "unknown": False},
    {"xd": 4, "only_basic": True, "assumed": [-5, -30], "unknown": False},
    {"xd": 2, "only_basic": False, "assumed": None, "unknown": True,
     "truncated": True},
    {"xd": 1, "only_basic": False, "assumed": [0, 30], "unknown": False,
     "truncated": True},
    {"xd": 3, "only_basic": True, "assumed": None, "unknown": True},
    {"xd": 2, "only_basic": False, "assumed": [99, 59], "unknown": False},
]
PARSERS = ["timepoint", "duration", "recurrence"]
MODES = ["gregorian", "360day", "365day", "366day"]


def decode(data):
    data = bytes(data)
    if len(data) < 3:
        data = data + b"\x00" * (3 - len(data))
    which = PARSERS[data[0] % 3]
    cfg = dict(CONFIGS[data[1] % len(CONFIGS)], sys=[330, 390, 1, 1])
    if which != "timepoint":
        cfg.pop("truncated", None)
    text = "".join(TOKENS[b % len(TOKENS)] for b in data[3:])[:200]
    return {"kind": "fuzz", "mode": MODES[data[2] % 4], "parser": which,
            "cfg": cfg, "text": text}


def encode(which, text, cfg_index=0, mode_index=0):
    out = bytearray([PARSERS.index(which), cfg_index, mode_index])
    for ch in text:
        out.append(TOKENS.index(ch))
    return bytes(out)
