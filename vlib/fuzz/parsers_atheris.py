#!/usr/bin/env python3
"""Coverage-guided target for C09 (run with python3-vt, which has atheris).

Bytes are decoded into a token stream over the three grammars' alphabets
(vlib/fuzz/codec.py) and pushed through vlib.checks.c09.check_fuzz, which holds
the semantic oracle (type of exception, validity of the returned object,
watchdog).  A violation raises, so libFuzzer saves the input.
"""
import os
import sys

HERE = os.path.dirname(os.path.dirname(os.path.dirname(os.path.abspath(__file__))))
sys.path.insert(0, HERE)
REPO = os.environ.get("VERIF_REPO", "/repo")
sys.path.insert(0, REPO)

import atheris  # noqa: E402

with atheris.instrument_imports(include=["metomi"]):
    import metomi.isodatetime.data  # noqa: F401,E402
    import metomi.isodatetime.parsers  # noqa: F401,E402
    import metomi.isodatetime.dumpers  # noqa: F401,E402

from vlib import runner  # noqa: E402

runner.import_library()

from vlib.checks import c09  # noqa: E402
from vlib.fuzz import codec  # noqa: E402


class FuzzViolation(Exception):
    pass


def one_input(data):
    case = codec.decode(data)
    out = c09.check_fuzz(case)
    if out.fail and not out.known:
        raise FuzzViolation(out.fail)


def main():
    atheris.Setup(sys.argv, one_input)
    atheris.Fuzz()


if __name__ == "__main__":
    main()
