"""C01 - adding an exact duration translates the instant exactly."""
from fractions import Fraction

from hypothesis import strategies as st

from vlib import gen as G
from vlib import model as M
from vlib import refcal as R
from vlib.runner import Outcome

PID = "C01"
RULE = (
    "case = (mode spelling, TimePoint constructor kwargs, exact Duration "
    "kwargs, operator spelling p+d | d+p | p-d), drawn by Hypothesis: dates "
    "constructed via the reference calendar and biased to year/month/leap/"
    "week-year edges, 3 representations x {hms, hms,tt, hm,nn, h,ii, 24:00} x "
    "offsets -99:59..+99:59; durations in week or d/h/m/s form, either sign or "
    "mixed signs, integer or decimal. Oracle: instant(result) == instant(p) "
    "+- len(d) via vlib.refcal (exact for all-integer cases, 1 us otherwise), "
    "representation and offset kept, fields a real date/time of the mode, "
    "p - d has the same fields as p + (-1*d). Non-trivial = the result lies on "
    "another local day than p; distinct by case digest.")
ASSUMPTIONS = [
    "reference calendar vlib/refcal.py",
    "float policy: integer-only cases must match exactly; cases with a decimal"
    " field or component within 1 microsecond, component magnitudes bounded so"
    " double rounding stays far below that",
    "a result at hour 24 is legal only when every component of d is zero "
    "(p is returned unchanged)",
    "field ranges are strict also for decimal cases (second == 60.0 is a "
    "violation): on the unchanged tree no such value was produced in > 3e6 "
    "generated cases; see DESIGN section 8",
]


def crossing_classes(cm, rep, dn0, dn1):
    if dn0 == dn1:
        return ["cross/none"]
    dirn = "fwd" if dn1 > dn0 else "back"
    c0, c1 = R.cal_from_dn(cm, dn0), R.cal_from_dn(cm, dn1)
    kinds = ["day"]
    if c0[:2] != c1[:2]:
        kinds.append("month")
    if c0[0] != c1[0]:
        kinds.append("year")
        if c0[0] // 100 != c1[0] // 100:
            kinds.append("century")
    if R.week_from_dn(cm, dn0)[0] != R.week_from_dn(cm, dn1)[0]:
        kinds.append("weekyear")
    lo, hi = min(dn0, dn1), max(dn0, dn1)
    if cm in ("gregorian", "366day") and hi - lo < 800:
        for y in range(R.year_of_dn(cm, lo), R.year_of_dn(cm, hi) + 1):
            if R.mlens(cm, y)[1] == 29 and lo < R.dn_from_cal(cm, y, 2, 29) <= hi:
                kinds.append("leapday")
                break
    return ["cross/%s/%s/%s" % (rep, k, dirn) for k in kinds]


def check_case(case):
    mode, kw, dkw, op = case["mode"], case["p"], case["d"], case["op"]
    cm = R.canon(mode)
    int_class = M.kw_is_int(kw) and M.dkw_is_int(dkw)
    tol = 0 if int_class else M.US
    ip = M.kw_instant(cm, kw)
    length = M.dkw_len(dkw)
    rep = M.kw_rep(kw)
    form = M.kw_form(kw)
    mixed = len({v > 0 for v in dkw.values() if v}) > 1
    classes = ["op/" + op, "rep/" + rep, "form/" + form, "mode/" + cm,
               "class/" + ("int" if int_class else "decimal"),
               "dur/" + ("weeks" if "weeks" in dkw else
                         "mixed-sign" if mixed else "single-sign")]
    fail = None
    nontrivial = False
    with M.use_mode(mode):
        try:
            p = M.make_point(kw)
            d = M.make_duration(dkw)
            if op == "p+d":
                q = p + d
                exp = ip + length
            elif op == "d+p":
                q = d + p
                exp = ip + length
            else:
                q = p - d
                exp = ip - length
            n = M.Native(cm, q, allow24=M.dkw_all_zero(dkw))
            problems = list(n.problems)
            if problems:
                fail = "fields_valid: %s %s %s -> %r: %s" % (
                    M.fmt_kw(kw), op, dkw, n.f, "; ".join(problems))
            elif abs(n.instant - exp) > tol:
                fail = ("instant: mode %s %s %s %s -> %s (native %r %r:%r:%r) "
                        "is off by %s s" % (
                            mode, M.fmt_kw(kw), op, dkw, M.sp(q), n.date, n.h, n.m,
                            n.s, float(n.instant - exp)))
            elif n.rep != rep:
                fail = "representation: %s -> %s" % (rep, n.rep)
            elif n.tz != M.kw_tz(kw) or (n.tzh, n.tzm) != (
                    kw["time_zone_hour"], kw["time_zone_minute"]):
                fail = "offset: zone changed to %r:%r" % (n.tzh, n.tzm)
            elif n.form != {"24": "hms", "hms,tt": "hms"}.get(form, form):
                fail = "precision_form: %s -> %s" % (form, n.form)
            if fail is None and op == "p-d":
                q2 = p + (-1 * d)
                n2 = M.Native(cm, q2, allow24=True)
                a = (n.rep, n.date, n.h, n.m, n.s, n.tzh, n.tzm)
                b = (n2.rep, n2.date, n2.h, n2.m, n2.s, n2.tzh, n2.tzm)
                if a != b:
                    fail = "sub_is_add_neg: p - d = %r but p + (-1*d) = %r" % (a, b)
            if fail is None:
                dn0 = M.kw_dn(cm, kw)
                nontrivial = n.dn != dn0
                classes += crossing_classes(cm, rep, dn0, n.dn)
        except Exception as e:      # noqa: BLE001 - any exception is a failure
            fail = "exception: mode %s %s %s %s raised %s: %s" % (
                mode, M.fmt_kw(kw), op, dkw, type(e).__name__, e)
    return Outcome(fail=fail, nontrivial=nontrivial, classes=classes)


@st.composite
def st_case(draw, max_days):
    mode = draw(G.MODE_WEIGHTED)
    cm = R.canon(mode)
    decimal = draw(st.integers(0, 9)) < 4
    forms = G.ALL_FORMS if decimal else G.INT_FORMS
    kw = draw(G.st_point_kw(cm, forms=forms))
    signs = "mixed" if draw(st.integers(0, 9)) < 3 else "any"
    k = draw(st.integers(0, 9))
    md = 60 if k < 4 else 1000 if (k < 8 or decimal) else max_days
    dkw = draw(G.st_exact_duration_kw(
        max_days=md, decimals=decimal and draw(st.booleans()), signs=signs))
    op = draw(st.sampled_from(["p+d", "p+d", "d+p", "p-d"]))
    return {"mode": mode, "p": kw, "d": dkw, "op": op}


def run_shard(ctx):
    quick = ctx.tier == "quick"
    ctx.hyp(st_case(200000 if quick else 2000000), check_case,
            2500 if quick else 90000)
