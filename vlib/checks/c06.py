"""C06 - changing the UTC offset never changes the instant."""
import re
import types
from fractions import Fraction

from hypothesis import strategies as st

from vlib import forms as F
from vlib import gen as G
from vlib import model as M
from vlib import refcal as R
from vlib.runner import Outcome
from vlib.checks.c02 import QUARTER_TZ

PID = "C06"
RULE = (
    "case = (mode, TimePoint kwargs, destination offset, route): route is "
    "to_time_zone, to_utc, to_local_time_zone (system zone substituted by a "
    "fake time module: standard/daylight offsets, daylight flag, tm_isdst) or "
    "TimePointDumper.dump with a format that spells a literal zone (Z, +-hh, "
    "+-hhmm, +-hh:mm x basic/extended x calendar/ordinal/week date forms). "
    "Oracle: requested offset carried (native zone fields and the str() of "
    "the result's zone, read as Z / +-hh:mm), instant unchanged (vlib.refcal; exact "
    "for integer cases, 1 us for decimals), representation kept, fields "
    "valid, library ==, hash == and zero difference (integer and dyadic "
    "cases), dumped text ends with the literal zone and - decoded by an "
    "independent positional decoder - denotes the same instant. Non-trivial = "
    "local date changes under the conversion, or minutes non-zero, or "
    "|offset| >= 24 h; distinct by case digest.")
ASSUMPTIONS = [
    "reference calendar vlib/refcal.py",
    "library ==/hash/zero-difference clauses are evaluated for integer-field "
    "points and for dyadic decimals with quarter-hour offsets only (exact in "
    "floats); other decimals are held to the 1 microsecond instant tolerance",
    "a literal two-digit zone (+hh) is only generated for zero-minute offsets",
    "dump of an h,ii point is only generated when the offset change is a "
    "multiple of 15 minutes (otherwise six decimal digits of an hour cannot "
    "spell the result)",
]


class FakeTime:
    """Stands in for the ``time`` module inside metomi.isodatetime.timezone."""

    def __init__(self, std_min, dst_min, daylight, isdst):
        self.timezone = -std_min * 60
        self.altzone = -dst_min * 60
        self.daylight = daylight
        self._isdst = isdst

    def localtime(self, *args):
        return types.SimpleNamespace(tm_isdst=self._isdst)

    def time(self):
        return 0.0


class fake_system_zone:
    def __init__(self, cfg):
        self.cfg = cfg

    def __enter__(self):
        from metomi.isodatetime import timezone
        self.mod = timezone
        self.old = timezone.time
        timezone.time = FakeTime(*self.cfg)

    def __exit__(self, *exc):
        self.mod.time = self.old
        return False


def expected_local(cfg):
    std_min, dst_min, daylight, isdst = cfg
    eff = dst_min if (isdst == 1 and daylight) else std_min
    sg = -1 if eff < 0 else 1
    return sg * (abs(eff) // 60), sg * (abs(eff) % 60)


DATE_DUMP = {("c", "extended"): "CCYY-MM-DD", ("c", "basic"): "CCYYMMDD",
             ("o", "extended"): "CCYY-DDD", ("o", "basic"): "CCYYDDD",
             ("w", "extended"): "CCYY-Www-D", ("w", "basic"): "CCYYWwwD"}
TIME_DUMP = {("hms", "extended"): "hh:mm:ss", ("hms", "basic"): "hhmmss",
             ("hms,tt", "extended"): "hh:mm:ss,tt", ("hms,tt", "basic"): "hhmmss,tt",
             ("hm,nn", "extended"): "hh:mm,nn", ("hm,nn", "basic"): "hhmm,nn",
             ("h,ii", "extended"): "hh,ii", ("h,ii", "basic"): "hh,ii"}


def literal_zone(style, h, m):
    if style == "Z":
        return "Z"
    sg = F.zone_sign(h, m)
    if style == "+hh":
        return "%s%02d" % (sg, abs(h))
    if style == "+hhmm":
        return "%s%02d%02d" % (sg, abs(h), abs(m))
    return "%s%02d:%02d" % (sg, abs(h), abs(m))


def zone_text_offset(text):
    """(hours, minutes) that TimeZone.__str__ text denotes (Z or +-hh:mm,
    minutes carrying the hour's sign), None if it is neither."""
    if text == "Z":
        return (0, 0)
    m = re.match(r"^([+-])(\d\d+):(\d\d)$", text)
    if not m:
        return None
    sg = -1 if m.group(1) == "-" else 1
    return (sg * int(m.group(2)), sg * int(m.group(3)))


def check_case(case):
    mode, kw, route = case["mode"], case["p"], case["route"]
    cm = R.canon(mode)
    form = M.kw_form(kw)
    rep = M.kw_rep(kw)
    int_class = M.kw_is_int(kw)
    exactish = int_class or case.get("dyadic", False)
    tol = 0 if int_class else M.US
    ip = M.kw_instant(cm, kw)
    classes = ["route/" + route, "mode/" + cm, "rep/" + rep, "form/" + form]
    fail = None
    nontrivial = False
    dest = tuple(case["tz"]) if "tz" in case else None
    with M.use_mode(mode):
        try:
            p = M.make_point(kw)
            q = None
            if route == "to_time_zone":
                q = p.to_time_zone(M.lib().TimeZone(hours=dest[0], minutes=dest[1]))
            elif route == "to_utc":
                dest = (0, 0)
                q = p.to_utc()
            elif route == "to_local":
                cfg = tuple(case["sys"])
                dest = expected_local(cfg)
                with fake_system_zone(cfg):
                    q = p.to_local_time_zone()
            if q is not None:
                n = M.Native(cm, q, allow24=(M.kw_tz(kw) == dest[0] * 3600 + dest[1] * 60))
                if (n.tzh, n.tzm) != dest:
                    fail = "offset: asked for %r, result carries (%r, %r)" % (
                        dest, n.tzh, n.tzm)
                elif zone_text_offset(str(q.time_zone)) != dest:
                    fail = "offset_text: asked for %r, str() of the result's " \
                           "zone is %r" % (dest, str(q.time_zone))
                elif n.problems:
                    fail = "fields_valid: mode %s %s -> %r: %s" % (
                        mode, M.fmt_kw(kw), n.f, "; ".join(n.problems))
                elif n.instant is not None and abs(n.instant - ip) > tol:
                    fail = ("instant: mode %s %s re-expressed at %r -> %s, off "
                            "by %s s" % (mode, M.fmt_kw(kw), dest, M.sp(q),
                                         float(n.instant - ip)))
                elif n.rep != rep:
                    fail = "representation: %s -> %s" % (rep, n.rep)
                elif exactish:
                    if not (q == p and p == q):
                        fail = "equal: mode %s %s != its re-expression %s" % (
                            mode, M.fmt_kw(kw), M.sp(q))
                    elif hash(q) != hash(p):
                        fail = "hash: mode %s %s and %s hash differently" % (
                            mode, M.fmt_kw(kw), M.sp(q))
                    elif M.dur_len(q - p) != 0 or M.dur_len(p - q) != 0:
                        fail = "zero_difference: %s - %s = %s" % (M.sp(q), M.sp(p), q - p)
                if fail is None and n.dn is not None:
                    nontrivial = (n.dn != M.kw_dn(cm, kw) or dest[1] != 0 or
                                  abs(dest[0]) >= 24)
                    if n.dn != M.kw_dn(cm, kw):
                        classes.append("date_changes")
                        if n.year != kw["year"]:
                            classes.append("year_changes")
            else:       # dump with a literal zone
                nota, drep, style = case["notation"], case["drep"], case["style"]
                xd = kw["num_expanded_year_digits"]
                dexpr = ("+X" if xd else "") + DATE_DUMP[(drep, nota)]
                tkey = "hms" if form == "24" else form
                texpr = TIME_DUMP[(tkey, nota)]
                lit = literal_zone(style, *dest)
                fmt = dexpr + "T" + texpr + lit
                dumper = M.lib().dumpers.TimePointDumper(
                    num_expanded_year_digits=xd)
                try:
                    text = dumper.dump(p, fmt)
                except M.lib().dumpers.TimePointDumperBoundsError:
                    return Outcome(skip=True)
                if not text.endswith(lit):
                    fail = "dump_zone: format %r of %s gave %r (zone literal " \
                           "%r lost)" % (fmt, M.fmt_kw(kw), text, lit)
                else:
                    body = text[:len(text) - len(lit)]
                    dv, tv, _ = F.decode_datetime(
                        body, F.date_form(dexpr, nota),
                        F.time_form(texpr, nota), None, xd)
                    y = dv["year"]
                    ok = True
                    if drep == "c":
                        ok = R.valid_cal(cm, y, dv["month"], dv["day"])
                        dn = ok and R.dn_from_cal(cm, y, dv["month"], dv["day"])
                    elif drep == "o":
                        ok = R.valid_ord(cm, y, dv["doy"])
                        dn = ok and R.dn_from_ord(cm, y, dv["doy"])
                    else:
                        ok = R.valid_week(cm, y, dv["week"], dv["wday"])
                        dn = ok and R.dn_from_week(cm, y, dv["week"], dv["wday"])
                    frac = Fraction(int(tv.get("frac", "0")),
                                    10 ** len(tv.get("frac", "0")))
                    if tkey == "h,ii":
                        sod = (tv["hour"] + frac) * 3600
                    elif tkey == "hm,nn":
                        sod = tv["hour"] * 3600 + (tv["minute"] + frac) * 60
                    else:
                        sod = (tv["hour"] * 3600 + tv["minute"] * 60 +
                               tv["second"] + frac)
                    if not ok:
                        fail = "dump_valid: %r is not a real date (%s)" % (
                            text, mode)
                    else:
                        got = R.instant(dn, sod, dest[0], dest[1])
                        if abs(got - ip) > (0 if int_class else M.US):
                            fail = ("dump_instant: mode %s %s dumped with %r "
                                    "-> %r, off by %s s" % (
                                        mode, M.fmt_kw(kw), fmt, text,
                                        float(got - ip)))
                        nontrivial = (dn != M.kw_dn(cm, kw) or dest[1] != 0 or
                                      abs(dest[0]) >= 24 or drep != rep)
                classes.append("style/" + style)
        except Exception as e:      # noqa: BLE001
            fail = "exception: mode %s %r raised %s: %s" % (
                mode, {k: v for k, v in case.items() if k != "_history"},
                type(e).__name__, e)
    if dest is not None:
        if dest[1] != 0:
            classes.append("dest_minutes_nonzero")
        if dest[0] == 0 and dest[1] < 0:
            classes.append("dest_negative_minutes_zero_hours")
        if abs(dest[0]) >= 24:
            classes.append("dest_beyond_a_day")
    return Outcome(fail=fail, nontrivial=nontrivial, classes=classes)


SYS_MIN = st.one_of(
    st.sampled_from([0, 60, -60, 330, -210, 345, 765, 825, -135, -30, 30, -40,
                     -1, 1, 59, -59, 61, -61, 1439, -1439, 1440, -1440, -570]),
    st.integers(-1440, 1440))


@st.composite
def st_case(draw):
    mode = draw(G.MODE_WEIGHTED)
    cm = R.canon(mode)
    cls = draw(st.sampled_from(["int", "int", "int", "dyadic", "decimal"]))
    route = draw(st.sampled_from(["to_time_zone", "to_time_zone", "to_utc",
                                  "to_local", "dump", "dump"]))
    if cls == "int":
        kw = draw(G.st_point_kw(cm, forms=G.INT_FORMS))
        tz = draw(G.st_tz())
        if draw(st.integers(0, 3)) == 0:
            # near midnight on a month / year / leap-day edge; the
            # destination is on the other side of it
            kw = draw(G.st_edge_point_kw(cm, forms=G.INT_FORMS))
            tz = draw(st.sampled_from(
                [(0, 0), (0, 0), (-kw["time_zone_hour"], -kw["time_zone_minute"])]))
    elif cls == "dyadic":
        kw = draw(G.st_point_kw(cm, forms=G.ALL_FORMS, dyadic=True,
                                tz=draw(st.sampled_from(QUARTER_TZ))))
        tz = draw(st.sampled_from(QUARTER_TZ))
    else:
        kw = draw(G.st_point_kw(cm, forms=G.ALL_FORMS))
        tz = draw(G.st_tz())
    case = {"mode": mode, "p": kw, "route": route}
    if cls == "dyadic":
        case["dyadic"] = True
    if route == "to_time_zone":
        case["tz"] = list(tz)
    elif route == "to_local":
        if cls == "dyadic":
            q = draw(st.sampled_from(QUARTER_TZ[:14]))
            m = q[0] * 60 + q[1]
            case["sys"] = [m, m + 60, draw(st.sampled_from([0, 1])),
                           draw(st.sampled_from([0, 1, -1]))]
        else:
            case["sys"] = [draw(SYS_MIN), draw(SYS_MIN),
                           draw(st.sampled_from([0, 1])),
                           draw(st.sampled_from([0, 1, -1]))]
    elif route == "dump":
        if M.kw_form(kw) == "h,ii":
            # keep the minute change a multiple of 15
            tz = draw(st.sampled_from(QUARTER_TZ))
            if kw["time_zone_minute"] % 15:
                kw["time_zone_minute"] = 0
        style = draw(st.sampled_from(["Z", "+hh", "+hhmm", "+hh:mm", "+hh:mm"]))
        if style == "Z":
            tz = (0, 0)
        elif style == "+hh":
            tz = (tz[0], 0)
        case["tz"] = list(tz)
        case["style"] = style
        case["notation"] = draw(st.sampled_from(["basic", "extended"]))
        case["drep"] = draw(st.sampled_from(["c", "o", "w"]))
    return case


def run_shard(ctx):
    quick = ctx.tier == "quick"
    ctx.hyp(st_case(), check_case, 2500 if quick else 70000)
