"""C04 - subtracting time points inverts addition."""
from fractions import Fraction

from hypothesis import strategies as st

from vlib import gen as G
from vlib import model as M
from vlib import refcal as R
from vlib.runner import Outcome
from vlib.checks import c02

PID = "C04"
RULE = (
    "case kind 'ab' = (mode, TimePoint kwargs a, b): independent points (any "
    "distance up to ~24000 years, across year 0), same-instant re-spellings "
    "and near neighbours in other representations/offsets/precision forms; "
    "kind 'pd' = (mode, point p, exact duration d). Oracle (vlib.refcal "
    "instants): a-b has no years/months, is not in week form, its length is "
    "instant(a)-instant(b) (exact for integer cases, 1 us otherwise), one sign"
    " throughout with h<24, m<60, s<60; (a-b) == -1*(b-a); b+(a-b) denotes "
    "a's instant and == a; (p+d)-p == d. Non-trivial = operands differ in "
    "representation or offset, or the borrow chain is exercised (a component "
    "of the true difference is 0 while a lower one is not); distinct by case "
    "digest.")
ASSUMPTIONS = [
    "reference calendar vlib/refcal.py",
    "float policy: exact for integer-only cases, 1 microsecond otherwise; "
    "sign/normal-form clauses are skipped when the true distance is below the "
    "tolerance",
    "b + (a-b) is only evaluated when |a-b| is at most 2e5 (quick) / 2e6 "
    "(thorough) days because the library walks day by day",
]

MAX_ADDBACK_DAYS = {"quick": 200000, "thorough": 2000000}
_TIER = ["quick"]


def _norm_problems(d, true_len, tol, int_class):
    probs = []
    if d.get_is_in_weeks():
        return ["difference is in week form"]
    if d.years or d.months:
        probs.append("difference has years/months %r/%r" % (d.years, d.months))
    comps = (d.days, d.hours, d.minutes, d.seconds)
    if abs(true_len) > tol:
        sg = 1 if true_len > 0 else -1
        edge = 0 if int_class else 1e-6
        if any(sg * c < 0 for c in comps):
            probs.append("components %r do not share the sign %+d" % (comps, sg))
        if not (abs(d.hours) < 24 + edge / 3600 and abs(d.minutes) < 60 + edge / 60
                and abs(d.seconds) < 60 + edge):
            probs.append("components %r not normalised" % (comps,))
        if int_class and not (abs(d.hours) < 24 and abs(d.minutes) < 60 and
                              abs(d.seconds) < 60):
            probs.append("components %r not normalised" % (comps,))
    return probs


def check_case(case):
    mode = case["mode"]
    cm = R.canon(mode)
    classes = ["kind/" + case["kind"], "mode/" + cm]
    fail = None
    nontrivial = False
    with M.use_mode(mode):
        try:
            if case["kind"] == "ab":
                ka, kb = case["a"], case["b"]
                int_class = M.kw_is_int(ka) and M.kw_is_int(kb)
                tol = 0 if int_class else M.US
                ia, ib = M.kw_instant(cm, ka), M.kw_instant(cm, kb)
                true = ia - ib
                a, b = M.make_point(ka), M.make_point(kb)
                d = a - b
                got = M.dur_len(d)
                probs = _norm_problems(d, true, tol, int_class)
                if abs(got - true) > tol:
                    fail = ("length: mode %s %s - %s = %s (%s s) but the "
                            "instants differ by %s s" % (
                                mode, M.fmt_kw(ka), M.fmt_kw(kb), d,
                                float(got), float(true)))
                elif probs:
                    fail = "normal_form: mode %s %s - %s = %s: %s" % (
                        mode, M.fmt_kw(ka), M.fmt_kw(kb), d, "; ".join(probs))
                else:
                    r = b - a
                    neg = -1 * r
                    if int_class and not (d == neg):
                        fail = "antisymmetry: %s - %s = %s but -(b-a) = %s" % (
                            M.fmt_kw(ka), M.fmt_kw(kb), d, neg)
                    elif abs(M.dur_len(r) + true) > tol:
                        fail = "antisymmetry: b-a = %s, a-b = %s" % (r, d)
                if fail is None:
                    if abs(true) <= MAX_ADDBACK_DAYS[_TIER[0]] * 86400:
                        back = b + d
                        n = M.Native(cm, back, allow24=(true == 0))
                        if n.problems and int_class:
                            fail = "addback_valid: %s + %s -> %s" % (
                                M.fmt_kw(kb), d, n.problems)
                        elif n.instant is not None and abs(n.instant - ia) > tol:
                            fail = ("addback_instant: mode %s b + (a-b) = %s, "
                                    "a = %s (b=%s, a-b=%s)" % (
                                        mode, M.sp(back), M.fmt_kw(ka), M.fmt_kw(kb), d))
                        elif int_class and not (back == a):
                            fail = "addback_eq: b + (a-b) = %s != a = %s" % (
                                M.sp(back), M.sp(a))
                    else:
                        classes.append("addback_skipped_large")
                days = abs(true) // 86400
                rem = abs(true) - days * 86400
                hh, r2 = divmod(rem, 3600)
                mm, ss = divmod(r2, 60)
                comps = [days, hh, mm, ss]
                borrow = any(comps[i] == 0 and any(comps[i + 1:])
                             for i in range(3)) and true != 0
                nontrivial = (M.kw_rep(ka) != M.kw_rep(kb) or
                              M.kw_tz(ka) != M.kw_tz(kb) or borrow)
                if borrow:
                    classes.append("borrow")
                if (ka["year"] < 0) != (kb["year"] < 0):
                    classes.append("across_year_0")
                if true == 0:
                    classes.append("zero_distance")
                if "24" in (M.kw_form(ka), M.kw_form(kb)):
                    classes.append("has_24:00")
                classes.append("class/" + ("int" if int_class else "decimal"))
                classes.append("dist/" + ("<1d" if days == 0 else "<1y" if
                                          days < 360 else "<100y" if
                                          days < 36500 else ">=100y"))
            else:
                kp, dkw = case["p"], case["d"]
                int_class = M.kw_is_int(kp) and M.dkw_is_int(dkw)
                tol = 0 if int_class else M.US
                p, d = M.make_point(kp), M.make_duration(dkw)
                q = p + d
                back = q - p
                true = M.dkw_len(dkw)
                if abs(M.dur_len(back) - true) > tol:
                    fail = "pd_length: mode %s (%s + %s) - p = %s" % (
                        mode, M.fmt_kw(kp), dkw, back)
                elif int_class and not (back == d):
                    fail = "pd_eq: mode %s (%s + %s) - p = %s != d" % (
                        mode, M.fmt_kw(kp), dkw, back)
                else:
                    probs = _norm_problems(back, true, tol, int_class)
                    if probs:
                        fail = "pd_normal_form: (%s + %s) - p = %s: %s" % (
                            M.fmt_kw(kp), dkw, back, "; ".join(probs))
                nontrivial = abs(true) >= 86400 or M.kw_form(kp) != "hms"
                classes.append("class/" + ("int" if int_class else "decimal"))
        except Exception as e:      # noqa: BLE001
            fail = "exception: mode %s %r raised %s: %s" % (
                mode, {k: v for k, v in case.items() if k != "_history"},
                type(e).__name__, e)
    return Outcome(fail=fail, nontrivial=nontrivial, classes=classes)


@st.composite
def st_case(draw):
    kind = draw(st.sampled_from(["ab", "ab", "ab", "pd"]))
    if kind == "ab":
        if draw(st.booleans()):
            c = draw(c02.st_case())
            a, b = c["pts"][0], c["pts"][-1]
            ia = M.kw_instant(R.canon(c["mode"]), a)
            if ia.denominator == 1 and M.kw_form(a) == "hms" and \
                    draw(st.integers(0, 3)) == 0:
                # less than a second apart (dyadic fractions: exact floats):
                # the same whole second in another spelling, plus fractions
                cm = R.canon(c["mode"])
                a = dict(a, second_of_minute_decimal=draw(
                    st.sampled_from([0.0, 0.25, 0.5, 0.75])))
                b = G.respell(draw, cm, int(ia), allow24=False)
                b["second_of_minute_decimal"] = draw(
                    st.sampled_from([0.0, 0.25, 0.5, 0.75]))
            return {"kind": "ab", "mode": c["mode"], "a": a, "b": b}
        mode = draw(G.MODE_WEIGHTED)
        cm = R.canon(mode)
        dec = draw(st.sampled_from([False, False, True]))
        forms = G.ALL_FORMS if dec else G.INT_FORMS
        a = draw(G.st_point_kw(cm, forms=forms))
        near = draw(st.booleans())
        years = (st.sampled_from([a["year"] - 1, a["year"], a["year"],
                                  a["year"] + 1]) if near else None)
        b = draw(G.st_point_kw(cm, forms=forms, years=years))
        return {"kind": "ab", "mode": mode, "a": a, "b": b}
    mode = draw(G.MODE_WEIGHTED)
    cm = R.canon(mode)
    dec = draw(st.sampled_from([False, False, True]))
    p = draw(G.st_point_kw(cm, forms=G.ALL_FORMS if dec else G.INT_FORMS))
    d = draw(G.st_exact_duration_kw(
        max_days=draw(st.sampled_from([40, 800, 800, 20000])),
        decimals=dec and draw(st.booleans()),
        signs=draw(st.sampled_from(["any", "any", "mixed"]))))
    return {"kind": "pd", "mode": mode, "p": p, "d": d}


def run_shard(ctx):
    _TIER[0] = ctx.tier
    quick = ctx.tier == "quick"
    ctx.hyp(st_case(), check_case, 2500 if quick else 70000)
