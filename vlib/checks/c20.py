"""C20 - adding a truncated time point finds the next matching date-time."""
from hypothesis import strategies as st

from vlib import gen as G
from vlib import model as M
from vlib import refcal as R
from vlib.runner import Outcome, Hang, watchdog

PID = "C20"
RULE = (
    "case = (mode, truncated point t, full whole-second point p, operand "
    "order, route): t names time fields {h, hm, hms, m, ms, s, none} and/or "
    "one day designator {day-of-month, day-of-year, weekday, week+weekday} "
    "(every value the mode admits, incl. day 29-31, day-of-year 366, week "
    "53), zone unknown or given, built through the constructor or the "
    "truncated parser; p in any representation/offset, h < 24, placed freely "
    "or exactly on / one second before / one second after a match; one case "
    "in eight puts p within an hour of midnight on a month / year / leap-day "
    "edge with t read in an offset on the other side, one in eight writes "
    "p's (whole-second) time of day as a decimal hour / minute. Oracle: "
    "brute-force search on vlib.refcal over local days (in t's offset if it "
    "has one, else p's) for the earliest date-time >= p whose specified "
    "fields equal t's, lower time fields zero, time of day unchanged when t "
    "names no time field; result in p's offset, valid, idempotent "
    "(t + result == result); 20 s watchdog. Non-trivial = the answer lies on "
    "a later day than p, or p already matches exactly; distinct by digest.")
ASSUMPTIONS = [
    "reference calendar vlib/refcal.py",
    "whole seconds only (fractions are outside the statement); 24:00 not "
    "generated; day designator values are restricted to those some year of "
    "the mode admits",
    "known finding F2 (hour-less time fields combined with a day designator: "
    "the time is fixed before the day walk) is excluded only where the "
    "observed answer equals the executable two-stage defect model",
]

HORIZON = 366 * 13


def day_matches(cm, dn, t):
    if "dom" in t:
        return R.cal_from_dn(cm, dn)[2] == t["dom"]
    if "doy" in t:
        return R.ord_from_dn(cm, dn)[1] == t["doy"]
    if "week" in t:
        wy, w, wd = R.week_from_dn(cm, dn)
        return w == t["week"] and wd == t["wd"]
    if "wd" in t:
        return R.weekday(cm, dn) == t["wd"]
    return True


def time_candidates(t, sod0):
    """Sorted seconds-of-day matching t's time fields."""
    h, m, s = t.get("h"), t.get("m"), t.get("s")
    if h is None and m is None and s is None:
        return None                 # time of day unchanged
    if h is not None:
        return [h * 3600 + (m or 0) * 60 + (s or 0)]
    if m is not None:
        return [hh * 3600 + m * 60 + (s or 0) for hh in range(24)]
    return [mm * 60 + s for mm in range(1440)]


def ref_next(cm, local, t):
    dn0, sod0 = divmod(local, 86400)
    cands = time_candidates(t, sod0)
    for dn in range(dn0, dn0 + HORIZON):
        if not day_matches(cm, dn, t):
            continue
        if cands is None:
            return dn * 86400 + sod0
        for sod in cands:
            if (dn, sod) >= (dn0, sod0):
                return dn * 86400 + sod
    return None


def f2_model(cm, local, t):
    """Two-stage search: fix the time first, then walk whole days."""
    dn0, sod0 = divmod(local, 86400)
    cands = time_candidates(t, sod0)
    if cands is None:
        dn, sod = dn0, sod0
    else:
        nxt = [c for c in cands if c >= sod0]
        dn, sod = (dn0, nxt[0]) if nxt else (dn0 + 1, cands[0])
    for k in range(HORIZON):
        if day_matches(cm, dn + k, t):
            return (dn + k) * 86400 + sod
    return None


def t_kwargs(t):
    kw = {"truncated": True}
    for a, b in (("h", "hour_of_day"), ("m", "minute_of_hour"),
                 ("s", "second_of_minute"), ("dom", "day_of_month"),
                 ("doy", "day_of_year"), ("wd", "day_of_week"),
                 ("week", "week_of_year")):
        if a in t:
            kw[b] = t[a]
    if "tz" in t:
        kw["time_zone_hour"], kw["time_zone_minute"] = t["tz"]
        if t.get("tzform") == "h" and t["tz"][1] == 0:
            del kw["time_zone_minute"]      # offset spelled with hours only
    return kw


def t_text(t, ext):
    """Truncated expression for t (needs a time part to carry a zone)."""
    if "dom" in t:
        d = "---%02d" % t["dom"]
    elif "doy" in t:
        d = "-%03d" % t["doy"]
    elif "week" in t:
        d = ("-W%02d-%d" if ext else "-W%02d%d") % (t["week"], t["wd"])
    elif "wd" in t:
        d = "-W-%d" % t["wd"]
    else:
        d = ""
    h, m, s = t.get("h"), t.get("m"), t.get("s")
    sep = ":" if ext else ""
    if h is not None:
        tm = "%02d" % h
        if m is not None:
            tm += sep + "%02d" % m
            if s is not None:
                tm += sep + "%02d" % s
    elif m is not None:
        tm = "-%02d" % m
        if s is not None:
            tm += sep + "%02d" % s
    elif s is not None:
        tm = "--%02d" % s
    else:
        tm = None
    text = d
    if tm is not None:
        text += "T" + tm
        if "tz" in t:
            zh, zm = t["tz"]
            sg = "-" if (zh < 0 or zm < 0) else "+"
            if t.get("tzform") == "h" and zm == 0:
                text += "%s%02d" % (sg, abs(zh))
            else:
                text += ("%s%02d:%02d" if ext else "%s%02d%02d") % (
                    sg, abs(zh), abs(zm))
    return text


def check_case(case):
    mode, t, kw = case["mode"], case["t"], case["p"]
    cm = R.canon(mode)
    fields = "".join(k for k in ("h", "m", "s") if k in t) or "none"
    desig = ("week+wd" if "week" in t else "dom" if "dom" in t else
             "doy" if "doy" in t else "wd" if "wd" in t else "none")
    classes = ["time/" + fields, "day/" + desig, "mode/" + cm,
               "order/" + case["order"], "route/" + case["route"],
               "tzone/" + ("hours_only" if t.get("tzform") == "h" else
                           "given" if "tz" in t else "unknown")]
    fail = None
    known = None
    nontrivial = False
    zone = (t["tz"][0] * 3600 + t["tz"][1] * 60) if "tz" in t else M.kw_tz(kw)
    ip = int(M.kw_instant(cm, kw))
    local = ip + zone
    with M.use_mode(mode):
        try:
            try:
                if case["route"] == "parse":
                    from metomi.isodatetime import parsers
                    tp = parsers.TimePointParser(
                        allow_truncated=True, default_to_unknown_time_zone=True
                    ).parse(t_text(t, case.get("ext", True)))
                else:
                    tp = M.make_point(t_kwargs(t))
            except ValueError:
                # not a possible truncated date in this mode (decided by C09)
                return Outcome(skip=True, classes=["t_refused"])
            p = M.make_point(kw)
            exp_local = ref_next(cm, local, t)
            if exp_local is None:
                return Outcome(skip=True, classes=["no_match_within_horizon"])
            exp = exp_local - zone
            with watchdog(20.0):
                q = (p + tp) if case["order"] == "p+t" else (tp + p)
                n = M.Native(cm, q)
                again = (q + tp) if case["order"] == "p+t" else (tp + q)
                n2 = M.Native(cm, again)
            if n.problems:
                fail = "valid: mode %s %s + %s -> %r: %s" % (
                    mode, M.fmt_kw(kw), t, n.f, n.problems)
            elif n.instant != exp:
                fail = ("earliest: mode %s %s %s (t=%r) = %s, the earliest "
                        "match not before p is %s s later than p, the result is"
                        " %s s later" % (mode, M.fmt_kw(kw), case["order"], t,
                                         M.sp(q), exp - ip,
                                         float(n.instant - ip)))
                model = f2_model(cm, local, t)
                if (desig != "none" and "h" not in t and fields != "none"
                        and model is not None and n.instant == model - zone):
                    known = "F2"
            elif (n.tzh, n.tzm) != (kw["time_zone_hour"], kw["time_zone_minute"]):
                fail = "offset: result zone (%r,%r) is not p's" % (n.tzh, n.tzm)
            elif n2.instant != n.instant:
                fail = ("idempotent: mode %s applying t=%r again to %s gives %s"
                        % (mode, t, M.sp(q), M.sp(again)))
            later_day = exp_local // 86400 != local // 86400
            nontrivial = later_day or exp == ip
            if later_day:
                classes.append("answer_on_later_day")
            if exp == ip:
                classes.append("p_matches_exactly")
        except Hang as e:
            fail = "hang: mode %s %s %s t=%r: %s" % (
                mode, M.fmt_kw(kw), case["order"], t, e)
        except Exception as e:      # noqa: BLE001
            fail = "exception: mode %s %s %s t=%r raised %s: %s" % (
                mode, M.fmt_kw(kw), case["order"], t, type(e).__name__, e)
    return Outcome(fail=fail, nontrivial=nontrivial, classes=classes, known=known)


@st.composite
def st_case(draw):
    mode = draw(G.MODE_WEIGHTED)
    cm = R.canon(mode)
    t = {}
    fields = draw(st.sampled_from(["h", "hm", "hms", "m", "ms", "s", "none"]))
    if "h" in fields:
        t["h"] = draw(st.one_of(st.integers(0, 23), st.sampled_from([0, 23, 6])))
    if "m" in fields:
        t["m"] = draw(st.one_of(st.integers(0, 59), st.sampled_from([0, 59, 30])))
    if "s" in fields:
        t["s"] = draw(st.one_of(st.integers(0, 59), st.sampled_from([0, 59, 15])))
    desigs = ["dom", "doy", "wd", "week+wd"] + (["none"] if fields != "none" else [])
    desig = draw(st.sampled_from(desigs))
    leap_ml = R.mlens(cm, 2000)
    if desig == "dom":
        top = max(leap_ml)
        t["dom"] = draw(st.one_of(st.integers(1, top),
                                  st.sampled_from([1, 28, 29, 30, top])))
        t["dom"] = min(t["dom"], top)
    elif desig == "doy":
        top = sum(leap_ml)
        t["doy"] = draw(st.one_of(st.integers(1, top),
                                  st.sampled_from([1, 59, 60, 365, top, top])))
        t["doy"] = min(t["doy"], top)
    elif desig == "wd":
        t["wd"] = draw(st.integers(1, 7))
    elif desig == "week+wd":
        top = 52 if cm == "360day" else 53
        t["week"] = draw(st.one_of(st.integers(1, top),
                                   st.sampled_from([1, 52, top, top])))
        t["week"] = min(t["week"], top)
        t["wd"] = draw(st.integers(1, 7))
    route = draw(st.sampled_from(["ctor", "parse"]))
    if draw(st.booleans()) and (route == "ctor" or fields != "none"):
        t["tz"] = list(draw(G.st_tz()))
        if draw(st.integers(0, 2)) == 0:
            # an offset spelled with hours only (T06+05)
            t["tz"] = [draw(st.sampled_from([5, -3, 1, -1, 12, -11, 0, 23])), 0]
            t["tzform"] = "h"
    kw = draw(G.st_point_kw(cm, forms=("hms",)))
    # adversarial placement: start where the designator does NOT exist in the
    # current month / year, so the search has to skip over it
    if draw(st.booleans()):
        y = draw(G.st_year())
        dn = None
        if t.get("dom", 0) >= 29:
            short = [mo for mo in range(1, 13) if R.mlens(cm, y)[mo - 1] < t["dom"]]
            if short:
                mo = draw(st.sampled_from(short))
                dn = R.dn_from_cal(cm, y, mo, draw(st.integers(
                    1, R.mlens(cm, y)[mo - 1])))
        elif t.get("doy", 0) > R.ylen(cm, y):
            dn = R.dn_from_ord(cm, y, draw(st.integers(1, R.ylen(cm, y))))
        elif t.get("week", 0) > R.weeks_in_year(cm, y):
            dn = R.weekyear_start(cm, y) + draw(st.integers(0, 360))
        if dn is not None:
            kw = draw(G.st_point_kw(cm, forms=("hms",), dn=dn))
    # place p on / next to a match half of the time
    how = draw(st.sampled_from(["free", "free", "on", "before", "after"]))
    if how != "free":
        zone = (t["tz"][0] * 3600 + t["tz"][1] * 60) if "tz" in t else M.kw_tz(kw)
        base = int(M.kw_instant(cm, kw)) + zone
        hit = ref_next(cm, base, t)
        if hit is not None:
            inst = hit - zone + {"on": 0, "before": -1, "after": 1}[how]
            kw = G.respell(draw, cm, inst, tz=(kw["time_zone_hour"],
                                               kw["time_zone_minute"]),
                           allow24=False)
    special = draw(st.integers(0, 7))
    if special == 0 and any(k in t for k in "hms"):
        # p near midnight on a month / year / leap-day edge, t read in an
        # offset on the other side of that edge
        kw = draw(G.st_edge_point_kw(cm, forms=("hms",)))
        t["tz"] = draw(st.sampled_from(
            [[0, 0], [-kw["time_zone_hour"], -kw["time_zone_minute"]]]))
        t.pop("tzform", None)
    elif special == 1 and how == "free" and "tz" not in t:
        # the same whole-second instant with the time of day written as a
        # decimal hour / minute (dyadic fraction); t without an offset of its
        # own, so that no re-zoning turns the fraction into float noise
        inst = int(M.kw_instant(cm, kw))
        inst -= inst % 225 if draw(st.booleans()) else inst % 15
        kw = G.respell(draw, cm, inst, reps=M.kw_rep(kw), tz=(
            kw["time_zone_hour"], kw["time_zone_minute"]), allow24=False,
            decimal=True)
    return {"mode": mode, "t": t, "p": kw, "route": route,
            "ext": draw(st.booleans()),
            "order": draw(st.sampled_from(["p+t", "t+p"]))}


def run_shard(ctx):
    quick = ctx.tier == "quick"
    ctx.hyp(st_case(), check_case, 1200 if quick else 30000)
