"""C19 - the command line prints exactly what the library computes."""
import contextlib
import io
import itertools
import os
import re
from fractions import Fraction

from hypothesis import strategies as st

from vlib import forms as F
from vlib import gen as G
from vlib import model as M
from vlib import recs as RC
from vlib import refcal as R
from vlib.runner import Outcome
from vlib.checks.c06 import fake_system_zone, expected_local
from vlib.checks import c09

PID = "C19"
RULE = (
    "case = an argument vector for main(argv), run in-process with captured "
    "stdout/stderr/SystemExit under a faked system zone and a controlled "
    "environment. kind 'shift': one date-time in any documented complete or "
    "reduced notation (basic/extended, calendar/ordinal/week, expanded years, "
    "hh / hhmm / hhmmss, zones none/Z/+-hh/+-hhmm/+-hh:mm) with 0-3 offsets "
    "of either sign spelled --offset=, -s, --offset1 or as a bare -P... "
    "value (in designator notation, or the alternative P[YYYY]-[MM]-[DD]T... "
    "notation when the values fit it), under --calendar / ISODATETIMECALENDAR / --utc / ref: the output "
    "must equal our own encoder applied, in the input's notation (or in the "
    "notation of a given --print-format: ISO dump syntax with template or "
    "literal zones, or strftime directives), to the fields shifted on "
    "vlib.refcal (exact part, then months, then years, per offset in order). "
    "A decimal hour / minute argument is also shifted by part of its own "
    "unit (06,5 + PT15M must print 06,75). "
    "kind 'shift_pf': the same for a date-time written in a strptime "
    "notation - a custom --parse-format over the supported directives, or "
    "the documented ctime form tried by default - whose output must use that "
    "same format. "
    "In one case in eight of these kinds the items are piped in (`-`). "
    "kind 'diff': two date-times (one case in four with dyadic decimal "
    "fractions of the smallest time unit; then within 1 us) with offsets1/2: "
    "the "
    "printed duration, read by an own mini decoder, must satisfy first + d == "
    "second with the right sign; --as-total must be len(d)/unit. kind 'recur':"
    " exactly min(N, n) lines equal to the library's iteration rendered by "
    "str. kind 'bad': a positional argument the library's own parser refuses "
    "must end in SystemExit with a non-zero code and a message, no other "
    "exception. Non-trivial = the offset crosses a day boundary, the notation "
    "is not the default extended calendar form, or the mode is not gregorian; "
    "distinct by case digest.")
ASSUMPTIONS = [
    "reference calendar vlib/refcal.py, the C05 month/year reference and the "
    "hand-copied form tables in vlib/forms.py",
    "years are kept inside the digits of the input notation after shifting "
    "(a result that cannot be printed in its own notation is outside the "
    "statement); decimal time forms only with whole-day/month/year offsets",
    "mutated arguments that happen to parse are not judged by the 'bad' "
    "clause (counted as out of domain)",
]


def run_main(argv, env, sys_cfg, reset_mode="gregorian", stdin=None):
    """Run main(argv) in-process -> (stdout, stderr, exit code, escaped exc)."""
    import sys
    from metomi.isodatetime import main as M_main
    out, err = io.StringIO(), io.StringIO()
    saved_stdin = sys.stdin
    if stdin is not None:
        sys.stdin = io.StringIO(stdin)
    code = None
    exc = None
    saved = {k: os.environ.get(k) for k in ("ISODATETIMECALENDAR",
                                            "ISODATETIMEREF")}
    try:
        for k in saved:
            os.environ.pop(k, None)
        os.environ.update(env)
        with fake_system_zone(tuple(sys_cfg)), contextlib.redirect_stdout(out), \
                contextlib.redirect_stderr(err):
            try:
                M_main.main(list(argv))
            except SystemExit as e:
                code = e.code if e.code is not None else 0
            except BaseException as e:      # noqa: B902
                exc = e
    finally:
        sys.stdin = saved_stdin
        for k, v in saved.items():
            if v is None:
                os.environ.pop(k, None)
            else:
                os.environ[k] = v
        if reset_mode is not None:
            M.lib().Calendar.default().set_mode(reset_mode)
    return out.getvalue(), err.getvalue(), code, exc


# ---------------------------------------------------------------------------
# date-time arguments


def point_from_values(cm, rep, dv, tv, zone):
    """Full-point kwargs (integer fields) of a parsed argument."""
    kw = {"year": dv["year"]}
    if rep == "c":
        kw["month_of_year"] = dv.get("month", 1)
        kw["day_of_month"] = dv.get("day", 1)
    elif rep == "o":
        kw["day_of_year"] = dv["doy"]
    else:
        kw["week_of_year"] = dv["week"]
        kw["day_of_week"] = dv.get("wday", 1)
    tv = tv or {}
    kw["hour_of_day"] = tv.get("hour", 0)
    kw["minute_of_hour"] = tv.get("minute", 0)
    kw["second_of_minute"] = tv.get("second", 0)
    kw["time_zone_hour"], kw["time_zone_minute"] = zone
    kw["num_expanded_year_digits"] = 2
    return kw


def to_zone(cm, kw, zone):
    """The same instant written in another offset (reference arithmetic)."""
    delta = (zone[0] * 3600 + zone[1] * 60) - M.kw_tz(kw)
    out = RC.ref_step(cm, RC.normalise24(cm, kw), {"seconds": delta}, 1)
    out["time_zone_hour"], out["time_zone_minute"] = zone
    return out


def encode_like(arg, kw):
    """Render point kw in the notation of the parsed argument ``arg``."""
    dform = F.date_form(arg["dexpr"], arg["notation"])
    rep = arg["rep"]
    dv = {"year": kw["year"]}
    if rep == "c":
        dv["month"], dv["day"] = kw["month_of_year"], kw["day_of_month"]
    elif rep == "o":
        dv["doy"] = kw["day_of_year"]
    else:
        dv["week"], dv["wday"] = kw["week_of_year"], kw["day_of_week"]
    text = F.encode_date(dform, dv, 2)
    if arg["texpr"] != "-":
        tform = F.time_form(arg["texpr"], arg["notation"])
        tv = {"hour": kw["hour_of_day"], "minute": kw["minute_of_hour"],
              "second": kw["second_of_minute"]}
        if arg.get("frac") is not None:
            tv["frac"] = arg["frac"].rstrip("0") or "0"
        text += "T" + F.encode_time(tform, tv)
        if arg.get("zlit") is not None:
            text += arg["zlit"]
        elif arg["zexpr"] != "-":
            text += F.encode_zone(F.zone_form(arg["zexpr"], arg["notation"]),
                                  kw["time_zone_hour"], kw["time_zone_minute"])
    return text


# print formats: (format string, notation, date expr, rep, time expr, zone)
# zone: "own" (template or none), or a literal (text, (h, m)) that converts
PRINT_ISO = [
    ("CCYY-MM-DDThh:mm:ssZ", "extended", "CCYY-MM-DD", "c", "hh:mm:ss", ("Z", (0, 0))),
    ("CCYYDDDThhmm+0100", "basic", "CCYYDDD", "o", "hhmm", ("+0100", (1, 0))),
    ("CCYY-Www-DThh:mm+hh:mm", "extended", "CCYY-Www-D", "w", "hh:mm", "own"),
    ("CCYYMMDDThhmmss-0530", "basic", "CCYYMMDD", "c", "hhmmss", ("-0530", (-5, -30))),
    ("CCYY-MM-DD", "extended", "CCYY-MM-DD", "c", "-", "own"),
    ("CCYY-DDDThh", "extended", "CCYY-DDD", "o", "hh", "own"),
    ("CCYYWwwDThhmmssZ", "basic", "CCYYWwwD", "w", "hhmmss", ("Z", (0, 0))),
]
PRINT_STRFTIME = ["%Y-%m-%dT%H:%M:%S%z", "%j/%Y %X", "%s", "%d.%m.%Y", "%F %H%M"]
# directives outside the library's own subset: the CLI falls back to the
# datetime library (documented; Gregorian only)
PRINT_STRFTIME_EXT = ["%d %b %Y", "%a %Y-%m-%d %H:%M", "%y%m%d", "%A %d %B %Y",
                      "%Y/%m/%d %I%p"]


def expected_print(cm, kw, pr):
    """Expected output of --print-format for the final point kw."""
    if pr["kind"] == "strftime":
        from vlib.checks import c17
        return c17.posix(cm, kw, pr["fmt"])
    if pr["kind"] == "strftime_ext":
        import datetime
        from vlib.checks import c17
        c = c17.civil(cm, RC.normalise24(cm, kw))
        return datetime.datetime(c["Y"], c["m"], c["d"], c["H"], c["M"],
                                 c["S"]).strftime(pr["fmt"])
    fmt, notation, dexpr, rep_, texpr, zone = PRINT_ISO[pr["i"]]
    spec = {"notation": notation, "dexpr": dexpr, "rep": rep_, "texpr": texpr,
            "zexpr": "-", "frac": None}
    if zone != "own":
        spec["zlit"] = zone[0]
        kw = to_zone(cm, kw, zone[1])
    elif "+hh:mm" in fmt:
        spec["zexpr"] = "+hh:mm"
    out = dict(G.spell_date(cm, M.kw_dn(cm, RC.normalise24(cm, kw)), rep_))
    base = RC.normalise24(cm, kw)
    for k in ("hour_of_day", "minute_of_hour", "second_of_minute",
              "time_zone_hour", "time_zone_minute"):
        out[k] = base[k]
    return encode_like(spec, out)


def resolve(cm, arg, utc, sys_cfg):
    """Reference TimePoint kwargs the CLI should hold after parsing arg."""
    zone = tuple(arg["zone"]) if arg["zone"] is not None else (
        (0, 0) if utc else expected_local(tuple(sys_cfg)))
    kw = point_from_values(cm, arg["rep"], arg["date"], arg["time"], zone)
    if utc and zone != (0, 0):
        kw = to_zone(cm, kw, (0, 0))
    return kw


def apply_offsets(cm, kw, offsets):
    for sign, dkw in offsets:
        kw = RC.ref_step(cm, RC.normalise24(cm, kw), dkw, sign)
    return kw


def offset_text(dkw):
    return RC.render_duration(dkw)


DUR_RE = re.compile(r"^(-?)P(?:(\d+)Y)?(?:(\d+)M)?(?:(\d+)D)?"
                    r"(?:T(?:(\d+(?:[,.]\d+)?)H)?(?:(\d+(?:[,.]\d+)?)M)?"
                    r"(?:(\d+(?:[,.]\d+)?)S)?)?$")


def frac_seconds(arg):
    """Seconds spelled by the decimal fraction of the argument's last unit."""
    if arg.get("frac") is None:
        return 0
    unit = 1 if "second" in arg["time"] else 60 if "minute" in arg["time"] \
        else 3600
    return Fraction("0." + arg["frac"]) * unit


DUR_RE_LENIENT = re.compile(DUR_RE.pattern.replace(
    r"(?:[,.]\d+)?", r"(?:[,.]\d+)?(?:e-\d+)?"))


def decode_duration(text, lenient=False):
    """Own mini decoder for printed durations -> signed seconds (Fraction).

    lenient (decimal cases only): float noise printed in exponent notation
    ("4,2e-12S") is read as the number it is."""
    m = (DUR_RE_LENIENT if lenient else DUR_RE).match(text)
    if not m or text in ("P", "-P"):
        m2 = re.match(r"^(-?)P(\d+)W$", text)
        if not m2:
            raise ValueError("not a duration: %r" % text)
        return (-1 if m2.group(1) else 1) * Fraction(int(m2.group(2))) * 604800
    if m.group(2) or m.group(3):
        if int(m.group(2) or 0) or int(m.group(3) or 0):
            raise ValueError("nominal duration printed: %r" % text)
    tot = Fraction(int(m.group(4) or 0)) * 86400
    for g, mult in ((5, 3600), (6, 60), (7, 1)):
        if m.group(g):
            tot += Fraction(m.group(g).replace(",", ".")) * mult
    return -tot if m.group(1) else tot


def argv_for(case):
    argv = []
    for a in case["args"]:
        argv.append(a)
    return argv


def check_case_inner(case):
    kind = case["kind"]
    mode = case["mode"]             # canonical mode name or None (default)
    cm = R.canon(mode or "gregorian")
    classes = ["kind/" + kind, "mode/" + cm, "mode_via/" + case["mode_via"]]
    fail = None
    nontrivial = cm != "gregorian"
    argv = list(case["argv"])
    env = dict(case.get("env", {}))
    sys_cfg = case["sys"]
    try:
        stdin = None
        if case.get("stdin") and "--" in argv:
            # the items are piped in: "-" as the only item reads them from
            # standard input, one per line
            k = argv.index("--")
            stdin = "".join(x + "\n" for x in argv[k + 1:])
            argv = argv[:k] + ["-"]
            classes.append("items_from_stdin")
        out, err, code, exc = run_main(argv, env, sys_cfg, stdin=stdin)
        shown = "main(%r) env=%r" % (argv, env) + (
            " stdin=%r" % stdin if stdin is not None else "")
        if exc is not None:
            fail = "escaped: %s raised %s: %s" % (shown, type(exc).__name__, exc)
        elif kind == "bad":
            classes.append("bad/" + case["slot"])
            if code is None or code == 0:
                fail = "bad_accepted: %s printed %r and exited %r" % (
                    shown, out, code)
            elif not (err.strip() or (not isinstance(code, int) and str(code))):
                fail = "bad_no_message: %s exited %r without a message" % (
                    shown, code)
            nontrivial = True
        elif code is not None:
            fail = "exit: %s exited with %r (stderr %r)" % (shown, code, err[:200])
        elif kind == "shift":
            arg = case["arg"]
            utc = "--utc" in argv or "-u" in argv
            start = resolve(cm, arg, utc, sys_cfg)
            end = apply_offsets(cm, start, case["offsets"])
            if case.get("subunit"):
                # the spelled fraction is a whole number of seconds: shift the
                # whole-second point and spell the new fraction
                unit = 1 if "second" in arg["time"] else 60 if "minute" in \
                    arg["time"] else 3600
                whole = dict(arg, time=dict(arg["time"]), frac=None)
                extra = int(Fraction("0." + arg["frac"]) * unit)
                start = RC.ref_step(cm, resolve(cm, whole, utc, sys_cfg),
                                    {"seconds": extra}, 1)
                end = apply_offsets(cm, start, case["offsets"])
                rest = (end["minute_of_hour"] * 60 + end["second_of_minute"]
                        if unit == 3600 else end["second_of_minute"]
                        if unit == 60 else 0)
                if unit == 1:
                    newfrac = arg["frac"]
                else:
                    q = Fraction(rest, unit)
                    digits = ""
                    while q and len(digits) < 7:
                        q *= 10
                        digits += str(int(q))
                        q -= int(q)
                    newfrac = digits or "0"
                    if unit == 3600:
                        end = dict(end, minute_of_hour=0, second_of_minute=0)
                    else:
                        end = dict(end, second_of_minute=0)
                arg = dict(arg, frac=newfrac)
                classes.append("decimal_shifted_within_unit")
            if case.get("print"):
                exp = expected_print(cm, end, case["print"])
                classes.append("print_format/" + case["print"]["fmt"])
            else:
                exp = encode_like(arg, end)
            if out != exp + "\n":
                fail = ("shift: mode %s %s printed %r, expected %r" % (
                    mode, shown, out, exp + "\n"))
            moved = M.kw_dn(cm, end) != M.kw_dn(cm, start)
            default_notation = (arg["dexpr"], arg["texpr"]) == (
                "CCYY-MM-DD", "hh:mm:ss")
            nontrivial = nontrivial or moved or not default_notation
            classes += ["date/%s/%s" % (arg["notation"], arg["dexpr"]),
                        "time/" + arg["texpr"], "zone/" + arg["zexpr"],
                        "offsets/%d" % len(case["offsets"])]
            if utc:
                classes.append("utc")
            if case.get("ref_via"):
                classes.append("ref/" + case["ref_via"])
            if moved:
                classes.append("crosses_day")
        elif kind == "shift_pf":
            # a date-time written in a strptime notation: a custom
            # --parse-format over the supported directives, or the documented
            # ctime form tried by default; the output uses the same format
            fmt, kw0 = case["fmt"], case["p"]
            utc = "--utc" in argv
            zone = (kw0["time_zone_hour"], kw0["time_zone_minute"]) \
                if "%z" in fmt else ((0, 0) if (utc or case["ctime"])
                                     else expected_local(tuple(sys_cfg)))
            start = dict(kw0, time_zone_hour=zone[0], time_zone_minute=zone[1])
            if "%j" in fmt:
                # %j makes an ordinal-date point (year steps keep the day of
                # the year, not month and day)
                start = dict(start, **G.spell_date(cm, M.kw_dn(cm, start), "o"))
                del start["month_of_year"], start["day_of_month"]
            if utc and zone != (0, 0):
                start = to_zone(cm, start, (0, 0))
            end = apply_offsets(cm, start, case["offsets"])
            if case["ctime"]:
                import datetime
                from vlib.checks import c17
                c = c17.civil(cm, end)
                exp = datetime.datetime(c["Y"], c["m"], c["d"], c["H"], c["M"],
                                        c["S"]).strftime(fmt)
            else:
                from vlib.checks import c17
                exp = c17.posix(cm, end, fmt)
            if out != exp + "\n":
                fail = ("shift_pf: mode %s %s printed %r, expected %r" % (
                    mode, shown, out, exp + "\n"))
            nontrivial = True
            classes += ["parse_format/" + ("ctime" if case["ctime"] else fmt),
                        "offsets/%d" % len(case["offsets"])]
            if utc:
                classes.append("utc")
        elif kind == "diff":
            a1, a2 = case["arg1"], case["arg2"]
            utc = "--utc" in argv
            p1 = apply_offsets(cm, resolve(cm, a1, utc, sys_cfg), case["offsets1"])
            p2 = apply_offsets(cm, resolve(cm, a2, utc, sys_cfg), case["offsets2"])
            true = (M.kw_instant(cm, p2) + frac_seconds(a2)) - (
                M.kw_instant(cm, p1) + frac_seconds(a1))
            text = out.rstrip("\n")
            if case.get("total"):
                unit = {"h": 3600, "m": 60, "s": 1}[case["total"].lower()]
                got = float(text)
                want = float(true) / unit
                if abs(got - want) > 1e-9 * max(1.0, abs(want)):
                    fail = "as_total: %s printed %r, expected %r" % (
                        shown, text, want)
                classes.append("as_total/" + case["total"])
            else:
                frac = a1.get("frac") is not None or a2.get("frac") is not None
                if frac:
                    classes.append("diff/fractional")
                got = decode_duration(text, lenient=frac)
                if abs(got - true) > (M.US if frac else 0):
                    fail = ("diff: mode %s %s printed %r (= %s s) but second - "
                            "first is %s s" % (mode, shown, text, float(got),
                                               float(true)))
                elif (true < 0) != text.startswith("-") and not (
                        frac and abs(true) <= M.US):
                    # (with decimal fields a distance within the tolerance
                    # has no sign determined by the mathematics)
                    fail = "diff_sign: %s printed %r for %s s" % (
                        shown, text, float(true))
            nontrivial = True
            classes.append("diff/" + ("negative" if true < 0 else
                                      "zero" if true == 0 else "positive"))
        else:       # recur
            from metomi.isodatetime import parsers
            with M.use_mode(cm), fake_system_zone(tuple(sys_cfg)):
                rec = parsers.TimeRecurrenceParser().parse(case["rec"])
                want = [str(p) for p in itertools.islice(iter(rec), case["max"])]
            lines = out.split("\n")
            if lines[-1] != "":
                fail = "recur_newline: %s output does not end with a newline" \
                       % shown
            elif lines[:-1] != want:
                fail = ("recur: mode %s %s printed %d lines %r, the library "
                        "iterates %r" % (mode, shown, len(lines) - 1,
                                         lines[:4], want[:4]))
            nontrivial = True
            classes.append("recur/lines=%d" % min(len(want), 11))
    except Exception as e:      # noqa: BLE001
        fail = "exception: main(%r) env=%r: harness %s: %s" % (
            argv, env, type(e).__name__, e)
    return Outcome(fail=fail, nontrivial=nontrivial, classes=classes)


# ---------------------------------------------------------------------------
# generation

SYS = st.tuples(st.sampled_from([0, 0, 60, -300, 330, -210, -30]),
                st.sampled_from([0, 60, -240, 390, -150, -40]),
                st.sampled_from([0, 1]), st.sampled_from([0, 1, -1]))
INT_TIMES = ["hhmmss", "hhmm", "hh", "hh:mm:ss", "hh:mm"]


@st.composite
def st_arg(draw, cm, allow_decimal=False, allow_reduced=True, hour24=False):
    """A documented date-time argument + its values."""
    notation = draw(st.sampled_from(["extended", "extended", "basic"]))
    types = ["complete", "complete", "complete"] + (
        ["reduced"] if allow_reduced else [])
    dtype = draw(st.sampled_from(types))
    dform = draw(st.sampled_from([f for f in F.DATE_FORMS if
                                  f["notation"] == notation and
                                  f["type"] == dtype]))
    expanded = "X" in dform["toks"]
    toks = dform["toks"]
    rep = dform["rep"]
    years = (st.one_of(st.integers(-90000, 90000), st.integers(-3000, 12000))
             if expanded else st.one_of(st.integers(1000, 8900),
                                        st.integers(1900, 2100)))
    if "YY" not in toks:
        y = draw(years) // 100 * 100
        if not expanded:
            y = min(max(y, 1000), 8900)
        dv = {"year": y}
    else:
        dn = draw(G.st_dn(cm, years))
        if rep == "c":
            y, mo, d = R.cal_from_dn(cm, dn)
            dv = {"year": y}
            if "MM" in toks:
                dv["month"] = mo
            if "DD" in toks:
                dv["day"] = d
        elif rep == "o":
            y, doy = R.ord_from_dn(cm, dn)
            dv = {"year": y, "doy": doy}
        else:
            wy, w, wd = R.week_from_dn(cm, dn)
            dv = {"year": wy, "week": w}
            if "D" in toks:
                dv["wday"] = wd
    text = F.encode_date(dform, dv, 2)
    arg = {"notation": notation, "dexpr": dform["expr"], "rep": rep,
           "texpr": "-", "zexpr": "-", "date": dv, "time": None, "zone": None,
           "frac": None}
    if dtype == "complete" and draw(st.integers(0, 6)) > 0:
        cands = [f for f in F.TIME_FORMS if f["notation"] == notation and
                 f["type"] in ("complete", "reduced") and
                 (allow_decimal or f["expr"] in INT_TIMES)]
        tform = draw(st.sampled_from(cands))
        tv = {"hour": draw(st.integers(0, 23))}
        if "mm" in tform["toks"]:
            tv["minute"] = draw(st.integers(0, 59))
        if "ss" in tform["toks"]:
            tv["second"] = draw(st.integers(0, 59))
        if hour24 and not any(t in (",f", ".f") for t in tform["toks"]):
            # the end of the day written as 24:00
            tv = {"hour": 24}
            if "mm" in tform["toks"]:
                tv["minute"] = 0
            if "ss" in tform["toks"]:
                tv["second"] = 0
        if any(t in (",f", ".f") for t in tform["toks"]):
            tv["frac"] = "%0*d" % (draw(st.integers(1, 6)),
                                   draw(st.integers(0, 9)))
            tv["frac"] = draw(st.sampled_from(["5", "25", "125", "5", "75",
                                               "05", "0625"]))
            arg["frac"] = tv["frac"]
        text += "T" + F.encode_time(tform, tv)
        arg["texpr"] = tform["expr"]
        arg["time"] = {k: v for k, v in tv.items() if k != "frac"}
        if draw(st.integers(0, 3)) > 0:
            zform = draw(st.sampled_from([f for f in F.ZONE_FORMS if
                                          f["notation"] == notation]))
            if zform["expr"] == "Z":
                zone = (0, 0)
            else:
                zone = draw(G.st_tz())
                if "mm" not in zform["toks"]:
                    zone = (zone[0], 0)
                if zone == (0, 0) and draw(st.booleans()):
                    zone = (draw(st.sampled_from([1, -1, 5, -12])), 0)
            text += F.encode_zone(zform, *zone)
            arg["zexpr"] = zform["expr"]
            arg["zone"] = list(zone)
    arg["text"] = text
    return arg


@st.composite
def st_offsets(draw, decimal_arg, maxn=3):
    n = draw(st.sampled_from([0, 1, 1, 2, 3][:maxn + 2]))
    offs = []
    for _ in range(n):
        sign = draw(st.sampled_from([1, 1, -1]))
        kind = draw(st.sampled_from(["exact", "exact", "nominal", "mixed",
                                     "small"]))
        if decimal_arg:
            dkw = draw(st.sampled_from([{"days": 1}, {"days": 40}, {"months": 1},
                                        {"years": 1}, {"weeks": 2}]))
        elif kind == "exact":
            dkw = draw(G.st_exact_duration_kw(
                max_days=draw(st.sampled_from([1, 3, 40, 400])), signs="pos"))
            if not any(dkw.values()):
                dkw = {"hours": 1}
        elif kind == "small":
            # values inside the carry-over limits of the alternative
            # (date-time-like) duration notation, so that spelling can be used
            dkw = {}
            for u, top in (("years", 3), ("months", 12), ("days", 30),
                           ("hours", 24), ("minutes", 60), ("seconds", 60)):
                if draw(st.integers(0, 2)) == 0:
                    dkw[u] = draw(st.one_of(st.integers(0, top),
                                            st.sampled_from([1, top])))
            if not any(dkw.values()):
                dkw = {"days": 1}
        elif kind == "nominal":
            dkw = draw(st.sampled_from([{"months": 1}, {"months": 11},
                                        {"months": 13}, {"years": 1},
                                        {"years": 4}, {"years": 1, "months": 1}]))
        else:
            dkw = dict(draw(st.sampled_from([{"months": 1}, {"years": 1}])),
                       **draw(st.sampled_from([{"days": 1}, {"hours": 30},
                                               {"days": 2, "seconds": 5}])))
        offs.append([sign, dkw])
    return offs


ALT_TOP = {"years": 9999, "months": 12, "days": 30, "hours": 24, "minutes": 60,
           "seconds": 60}


def alt_offset_text(dkw, ext=True):
    """The duration in the alternative ISO 8601 notation P[YYYY]-[MM]-[DD]
    T[hh]:[mm]:[ss] (None when a value is outside its carry-over limit)."""
    if any(k not in ALT_TOP or not isinstance(v, int) or not 0 <= v <= ALT_TOP[k]
           for k, v in dkw.items()):
        return None
    g = lambda k: dkw.get(k, 0)     # noqa: E731
    ds, ts = ("-", ":") if ext else ("", "")
    text = "P%04d%s%02d%s%02d" % (g("years"), ds, g("months"), ds, g("days"))
    if g("hours") or g("minutes") or g("seconds") or not ext:
        text += "T%02d%s%02d%s%02d" % (g("hours"), ts, g("minutes"), ts,
                                       g("seconds"))
    return text


def spell_offsets(draw, offs, which=1):
    """argv fragments for the offsets (various documented spellings)."""
    out = []
    for sign, dkw in offs:
        body = offset_text(dkw)
        if alt_offset_text(dkw) and draw(st.booleans()):
            body = alt_offset_text(dkw, draw(st.booleans()))
        text = ("-" if sign < 0 else draw(st.sampled_from(["", "", "+"]))) + body
        if which == 2:
            style = draw(st.sampled_from(["--offset2=", "-2"]))
        else:
            style = draw(st.sampled_from(["--offset=", "--offset1=", "-s", "-1",
                                          "--offset"]))
        if style.endswith("="):
            out.append([style + text])
        else:
            out.append([style, text])
    return out


def flat(groups):
    return [a for g in groups for a in g]


@st.composite
def st_mode(draw):
    """(canonical mode or None, how it is selected, argv part, env part)."""
    how = draw(st.sampled_from(["default", "default", "option", "env", "both"]))
    if how == "default":
        return None, how, [], {}
    m = draw(st.sampled_from(R.CANON_MODES))
    if how == "option":
        return m, how, ["--calendar=" + m], {}
    if how == "env":
        return m, how, [], {"ISODATETIMECALENDAR": draw(st.sampled_from(
            [m, m, m.replace("day", "_day") if m != "gregorian" else m]))}
    other = draw(st.sampled_from(R.CANON_MODES))
    return m, how, ["--calendar", m], {"ISODATETIMECALENDAR": other}


@st.composite
def st_shift(draw):
    mode, via, margv, env = draw(st_mode())
    cm = mode or "gregorian"
    dec = draw(st.integers(0, 5)) == 0
    arg = draw(st_arg(cm, allow_decimal=dec))
    offs = draw(st_offsets(arg["frac"] is not None))
    subunit = False
    if arg["frac"] is not None and draw(st.booleans()):
        # a decimal time of day shifted by part of its own unit: the
        # fraction itself has to change (06,5 + PT15M = 06,75); every
        # component of the offset is a dyadic fraction of that unit, so the
        # library's float sum is exact (04,125 - PT7M30S prints 03,999999)
        unit = 1 if "second" in arg["time"] else 60 if "minute" in arg["time"] \
            else 3600
        fr = Fraction("0." + arg["frac"])
        if (fr * unit).denominator == 1 and \
                fr.denominator & (fr.denominator - 1) == 0:
            subunit = True
            menu = {3600: [{"minutes": 15}, {"minutes": 30}, {"minutes": 45},
                           {"hours": 1, "minutes": 30},
                           {"days": 1, "minutes": 15}],
                    60: [{"seconds": 15}, {"seconds": 30}, {"seconds": 45},
                         {"minutes": 1, "seconds": 30},
                         {"hours": 1, "seconds": 15}],
                    1: [{"seconds": 1}, {"minutes": 1}, {"hours": 23}]}[unit]
            offs = [[draw(st.sampled_from([1, 1, -1])),
                     draw(st.sampled_from(menu))]
                    for _ in range(draw(st.integers(1, 2)))]
    argv = list(margv)
    ref_via = None
    pos = arg["text"]
    if draw(st.integers(0, 5)) == 0:
        ref_via = draw(st.sampled_from(["option", "env"]))
        if ref_via == "option":
            argv += [draw(st.sampled_from(["--ref=", "-R"])) + arg["text"]]
        else:
            env["ISODATETIMEREF"] = arg["text"]
        pos = "ref"
    groups = spell_offsets(draw, offs)
    if draw(st.integers(0, 3)) == 0 and not (
            # a decimal time of day is only echoed: no re-zoning
            arg["frac"] is not None and arg["zone"] not in (None, [0, 0])):
        groups.insert(draw(st.integers(0, len(groups))),
                      [draw(st.sampled_from(["--utc", "-u"]))])
    frag = flat(groups)
    pr = None
    if (arg["frac"] is None and "X" not in arg["dexpr"] and "YY" in arg["dexpr"]
            and arg["time"] is not None and arg["time"].get("hour") != 24
            and draw(st.integers(0, 2)) == 0):
        k3 = draw(st.integers(0, 2))
        if k3 == 0:
            i = draw(st.integers(0, len(PRINT_ISO) - 1))
            pr = {"kind": "iso", "i": i, "fmt": PRINT_ISO[i][0]}
        elif k3 == 1 and cm == "gregorian":
            pr = {"kind": "strftime_ext",
                  "fmt": draw(st.sampled_from(PRINT_STRFTIME_EXT))}
        else:
            pr = {"kind": "strftime",
                  "fmt": draw(st.sampled_from(PRINT_STRFTIME))}
        style = draw(st.sampled_from(["--print-format=", "--format=", "-f"]))
        frag += [style + pr["fmt"]] if style.endswith("=") else [style, pr["fmt"]]
    if pos[:1] in "+-" or draw(st.booleans()):
        argv += frag + ["--", pos]
    elif draw(st.booleans()):
        argv += [pos] + frag
    else:
        argv += frag + [pos]
    return {"subunit": subunit, "stdin": draw(st.integers(0, 7)) == 0, "kind": "shift", "mode": mode, "mode_via": via, "argv": argv,
            "env": env, "sys": list(draw(SYS)), "arg": arg, "offsets": offs,
            "ref_via": ref_via, "print": pr}


PARSE_FORMATS = ["%d/%m/%Y %H:%M:%S", "%Y-%j %H%M%S %z", "%F %H:%M%z",
                 "%Y%m%d%H", "%H:%M:%S %d.%m.%Y %z", "%Y%m%dT%H%M%S%z"]
CTIME = "%a %b %d %H:%M:%S %Y"


@st.composite
def st_shift_pf(draw):
    mode, via, margv, env = draw(st_mode())
    cm = mode or "gregorian"
    ctime = cm == "gregorian" and draw(st.integers(0, 2)) == 0
    fmt = CTIME if ctime else draw(st.sampled_from(PARSE_FORMATS))
    kw = draw(G.st_point_kw(cm, forms=("hms",), reps="c", years=st.one_of(
        st.integers(1000, 9000), st.integers(1990, 2030))))
    # parts the format does not spell default to the start of the period
    if "%S" not in fmt:
        kw["second_of_minute"] = 0
    if "%M" not in fmt:
        kw["minute_of_hour"] = 0
    if "%z" not in fmt:
        kw["time_zone_hour"] = kw["time_zone_minute"] = 0
    kw["num_expanded_year_digits"] = 0
    offs = draw(st_offsets(False))
    from vlib.checks import c17
    if ctime:
        import datetime
        c = c17.civil(cm, kw)
        text = datetime.datetime(c["Y"], c["m"], c["d"], c["H"], c["M"],
                                 c["S"]).strftime(fmt)
    else:
        text = c17.posix(cm, kw, fmt)
    argv = list(margv) + flat(spell_offsets(draw, offs))
    if not ctime:
        style = draw(st.sampled_from(["--parse-format=", "-p"]))
        argv += [style + fmt] if style.endswith("=") else [style, fmt]
    if draw(st.integers(0, 3)) == 0:
        argv.append("--utc")
    argv += ["--", text]
    return {"stdin": draw(st.integers(0, 7)) == 0, "kind": "shift_pf", "mode": mode, "mode_via": via, "argv": argv,
            "env": env, "sys": list(draw(SYS)), "fmt": fmt, "ctime": ctime,
            "p": kw, "offsets": offs}


@st.composite
def st_diff(draw):
    mode, via, margv, env = draw(st_mode())
    cm = mode or "gregorian"
    # one case in four may spell decimal fractions (dyadic) of the smallest
    # time unit: the difference is then not a whole number of seconds
    dec = draw(st.integers(0, 3)) == 0
    h24 = draw(st.sampled_from([0, 0, 0, 0, 1, 2]))
    a1 = draw(st_arg(cm, allow_decimal=dec, allow_reduced=False,
                     hour24=h24 == 1))
    a2 = draw(st_arg(cm, allow_decimal=dec, allow_reduced=False,
                     hour24=h24 == 2))
    o1 = draw(st_offsets(False, maxn=2))
    o2 = draw(st_offsets(False, maxn=2))
    if h24:
        # month / year steps from a point written as 24:00 are not defined by
        # the statement (clamping on the day as written or on the next day)
        o1 = [o for o in o1 if RC.is_exact(o[1])]
        o2 = [o for o in o2 if RC.is_exact(o[1])]
    if dec:
        # exact offsets only: the reference adds the spelled fraction to the
        # whole-second instants, which is valid when every step is a
        # translation
        o1 = [o for o in o1 if RC.is_exact(o[1])]
        o2 = [o for o in o2 if RC.is_exact(o[1])]
    argv = list(margv) + flat(spell_offsets(draw, o1, 1)) + \
        flat(spell_offsets(draw, o2, 2))
    total = None
    if draw(st.integers(0, 2)) == 0:
        total = draw(st.sampled_from(["h", "m", "s", "H", "M", "S"]))
        argv.append("--as-total=" + total)
    if draw(st.integers(0, 4)) == 0:
        argv.append("--utc")
    t1, t2 = a1["text"], a2["text"]
    place = draw(st.sampled_from(["before", "before", "between", "after"]))
    if place == "before" or t1[:1] in "+-" or t2[:1] in "+-":
        argv += ["--", t1, t2]
    elif place == "between":
        # options may stand between (or after) the two date-times, as in the
        # command's own synopsis: isodatetime A --offset1=... B
        argv = [t1] + argv + [t2]
    else:
        argv = [t1, t2] + argv
    return {"stdin": draw(st.integers(0, 7)) == 0, "kind": "diff", "mode": mode, "mode_via": via, "argv": argv,
            "env": env, "sys": list(draw(SYS)), "arg1": a1, "arg2": a2,
            "offsets1": o1, "offsets2": o2, "total": total}


@st.composite
def st_recur(draw):
    mode, via, margv, env = draw(st_mode())
    m2, spec = draw(RC.st_spec(max_reps=15, mode=mode or "gregorian"))
    # recurrence points must be printable in the CLI's default notation
    for a in ("start", "second", "end"):
        if a in spec and spec[a] is not None and not -90000 <= spec[a]["year"] <= 90000:
            spec[a] = dict(spec[a], year=2000)
    text = RC.render(spec)
    n = draw(st.one_of(st.none(), st.integers(1, 12)))
    argv = list(margv)
    if n is not None:
        argv.append("--max=%d" % n)
    argv.append(text)
    return {"kind": "recur", "mode": mode, "mode_via": via, "argv": argv,
            "env": env, "sys": list(draw(SYS)), "rec": text,
            "max": 10 if n is None else n}


@st.composite
def st_bad(draw):
    mode, via, margv, env = draw(st_mode())
    cm = mode or "gregorian"
    slot = draw(st.sampled_from(["point", "point1", "point2", "recurrence",
                                 "duration", "offset"]))
    fz = draw(c09.st_fuzz())
    garbage = draw(st.one_of(
        st.just(fz["text"]),
        st.sampled_from(["", "x", "2000-13-01", "2000-02-30T00Z", "20000102T0",
                         "2000-W54-1", "T", "P", "R", "R/", "R/2000", "R0/2000/P1D",
                         "2000-01-01T25Z", "2000-01-01T00:00+99:99", "٢٠٠٠",
                         "2000-01-01T00:00:60Z", "PT", "P1", "1W", "R2/P1D",
                         "2020-01-01T00:00T00", "2020-01-01T00:00+01+02",
                         "2020-01-01T00:00Z+01", "2020T01T02", "P2020T00T00",
                         "R/2020-01-01T00:00T00/P1D", "R2/2000/2001/2002"])))
    good = draw(st_arg(cm, allow_reduced=False))["text"]
    argv = list(margv)
    if slot == "point":
        argv += ["--", garbage]
        parser = "timepoint"
    elif slot == "point1":
        argv += ["--", garbage, good]
        parser = "timepoint"
    elif slot == "point2":
        argv += ["--", good, garbage]
        parser = "timepoint"
    elif slot == "recurrence":
        garbage = "R" + garbage.lstrip("R") if not garbage.startswith("R") \
            else garbage
        argv += ["--", garbage]
        parser = "recurrence"
    elif slot == "duration":
        argv += ["--as-total=s", "--", garbage]
        parser = "duration"
    else:
        argv += ["--offset=" + garbage, "--", good]
        parser = "offset"
    return {"kind": "bad", "mode": mode, "mode_via": via, "argv": argv,
            "env": env, "sys": list(draw(SYS)), "slot": slot,
            "garbage": garbage, "parser": parser}


def refused_by_library(case):
    """True when the library's own parser refuses the garbage argument."""
    from metomi.isodatetime import parsers
    g = case["garbage"]
    if g.startswith("-") and case["slot"] != "offset":
        return False        # looks like an option to the argument parser
    if g == "--":
        # the end-of-options marker: argparse consumes it even when given as
        # an option's value (--offset=-- arrives as an empty list), so the
        # library never sees "an argument that cannot be parsed"
        return False
    cm = case["mode"] or "gregorian"
    with M.use_mode(cm), fake_system_zone(tuple(case["sys"])):
        try:
            if case["parser"] == "timepoint":
                if g in ("now", "ref") or g.startswith("R") and \
                        case["slot"] == "point":
                    return False
                parsers.TimePointParser().parse(g)
            elif case["parser"] == "recurrence":
                if c09.est_recurrence_days(g) > 2e6:
                    return False
                rec = parsers.TimeRecurrenceParser().parse(g)
                [str(p) for p in itertools.islice(iter(rec), 10)]
            elif case["parser"] == "duration":
                if g.startswith("R"):
                    return False
                parsers.DurationParser().parse(g.replace("\\", ""))
            else:
                t = g[1:] if g[:1] in "+-" else g
                if not t:
                    return False
                parsers.DurationParser().parse(t)
        except ValueError:
            return True
        except Exception:       # noqa: BLE001 - cannot be printed etc.
            return False
    return False


def check_case(case):
    if case["kind"] == "bad" and not refused_by_library(case):
        return Outcome(skip=True, classes=["bad/out_of_domain"])
    if case["kind"] == "recur":
        # a series that walks out of the years its own notation can print is
        # outside the statement
        from metomi.isodatetime import parsers
        cm = case["mode"] or "gregorian"
        with M.use_mode(cm), fake_system_zone(tuple(case["sys"])):
            try:
                rec = parsers.TimeRecurrenceParser().parse(case["rec"])
                [str(p) for p in itertools.islice(iter(rec), case["max"])]
            except OverflowError:
                return Outcome(skip=True, classes=["recur/unprintable"])
            except Exception:       # noqa: BLE001 - judged by the case itself
                pass
    return check_case_inner(case)


def run_shard(ctx):
    quick = ctx.tier == "quick"
    n = 1000 if quick else 25000
    ctx.hyp(st_shift(), check_case, n + n // 2)
    ctx.hyp(st_diff(), check_case, n // 2, seed_salt=1)
    ctx.hyp(st_recur(), check_case, n // 4, seed_salt=2)
    ctx.hyp(st_bad(), check_case, n // 2, seed_salt=3)
    ctx.hyp(st_shift_pf(), check_case, n // 4, seed_salt=4)
