"""C11 - duration arithmetic, equality, ordering and hashing are coherent."""
from fractions import Fraction

from hypothesis import strategies as st

from vlib import gen as G
from vlib import model as M
from vlib import refcal as R
from vlib.runner import Outcome

PID = "C11"
RULE = (
    "case = (mode, Duration kwargs a, b, c, integer n in -50..50). Durations "
    "are week form or unit form, with optional years/months, single or mixed "
    "signs; b is often a re-spelling of a's exact length in other units "
    "(weeks / days / hours / seconds / mixed-sign carries) or a one-component "
    "variation of a; one case in eight builds operands with the constructor's "
    "standardize=True and/or weeks next to other units. Integer components for exact laws, decimals for "
    "tolerance laws (1 us). Oracle: algebraic laws (commutativity, "
    "associativity, identity, inverse, n*d == n-fold sum (also written "
    "x = a; x += a), a-b == a+(-1*b)); "
    "exact durations equal/ordered/hashed by exact total length; equal => "
    "equal hash; nominal equality iff years, months and exact remainder "
    "match; <,<=,>,>= agree with the rough length years*DAYS_IN_YEAR(mode) + "
    "months*30 days + exact part and with each other. Non-trivial = operands "
    "spelled in different units/forms or with mixed signs; distinct by digest.")
ASSUMPTIONS = [
    "the TimeZone subclass is excluded (statement)",
    "decimal components: laws are checked on lengths within 1 microsecond (or "
    "1e-12 relative if larger) and ordering clauses only when the true "
    "difference exceeds 1 microsecond",
]

YEAR_DAYS = {"gregorian": 365, "360day": 360, "365day": 365, "366day": 366}


def nominal(dkw):
    return dkw.get("years", 0), dkw.get("months", 0)


def is_exact_kw(dkw):
    return not dkw.get("years") and not dkw.get("months")


def rough(cm, dkw):
    y, m = nominal(dkw)
    return (y * YEAR_DAYS[cm] + m * 30) * 86400 + M.dkw_len(dkw)


def lib_nominal(d):
    if d.get_is_in_weeks():
        return 0, 0
    return d.years, d.months


def add_kw(a, b):
    out = {}
    for k in set(a) | set(b):
        out[k] = a.get(k, 0) + b.get(k, 0)
    return out


def sign(x):
    return (x > 0) - (x < 0)


def check_case(case):
    mode = case["mode"]
    cm = R.canon(mode)
    ka, kb, kc, n = case["a"], case["b"], case["c"], case["n"]
    int_class = all(M.dkw_is_int(k) for k in (ka, kb, kc))
    tol = 0 if int_class else M.US
    classes = ["mode/" + cm, "class/" + ("int" if int_class else "decimal")]
    fail = None

    def same(d, exp_nom, exp_len, what):
        """library duration d must have the given nominal part and length."""
        if lib_nominal(d) != exp_nom or abs(M.dur_len(d) - exp_len) > (
                max(tol, abs(exp_len) * Fraction(1, 10 ** 12)) if tol else 0):
            return "%s: got %s (nominal %r, exact %s s), expected nominal %r," \
                   " exact %s s" % (what, d, lib_nominal(d), float(M.dur_len(d)),
                                    exp_nom, float(exp_len))
        return None

    with M.use_mode(mode):
        try:
            D = M.lib().Duration
            std = case.get("std") or [False, False, False]
            a, b, c = (D(standardize=True, **k) if f else M.make_duration(k)
                       for k, f in zip((ka, kb, kc), std))
            if any(std):
                classes.append("ctor/standardize")
            if any("weeks" in k and len([v for v in k.values() if v]) > 1
                   for k in (ka, kb, kc)):
                classes.append("ctor/weeks_with_other_units")
            la, lb, lc = (M.dkw_len(k) for k in (ka, kb, kc))
            na, nb, nc = (nominal(k) for k in (ka, kb, kc))
            nab = (na[0] + nb[0], na[1] + nb[1])
            checks = [
                same(a + b, nab, la + lb, "add"),
                same(b + a, nab, la + lb, "commutativity"),
                same((a + b) + c, (nab[0] + nc[0], nab[1] + nc[1]),
                     la + lb + lc, "associativity_left"),
                same(a + (b + c), (nab[0] + nc[0], nab[1] + nc[1]),
                     la + lb + lc, "associativity_right"),
                same(a + D(), na, la, "identity"),
                same(D() + a, na, la, "identity_left"),
                same(a - b, (na[0] - nb[0], na[1] - nb[1]), la - lb, "subtract"),
                same(a + (-1 * b), (na[0] - nb[0], na[1] - nb[1]), la - lb,
                     "sub_is_add_neg"),
                same(n * a, (n * na[0], n * na[1]), n * la, "multiply"),
                same(a * n, (n * na[0], n * na[1]), n * la, "multiply_right"),
            ]
            if std[0]:
                plain = M.make_duration(ka)
                checks.append(same(a, na, la, "standardize"))
                if int_class and (not (a == plain) or hash(a) != hash(plain)):
                    checks.append("standardize_eq: Duration(%r, standardize="
                                  "True) = %s is not equal to / hashes unlike "
                                  "the unstandardized %s" % (ka, a, plain))
            fail = next((x for x in checks if x), None)
            if fail is None and int_class:
                if not ((a + b) == (b + a) and ((a + b) + c) == (a + (b + c))
                        and (a + D()) == a and (a - b) == (a + (-1 * b))):
                    fail = "law_eq: a=%r b=%r c=%r: library == rejects an " \
                           "algebraic identity" % (ka, kb, kc)
            if fail is None:
                inv = a + (-1 * a)
                if bool(inv) or not (inv == D()) or M.dur_len(inv) != 0:
                    if int_class or abs(M.dur_len(inv)) > tol:
                        fail = "inverse: %r + (-1 * itself) = %s is not empty" \
                               % (ka, inv)
                elif inv == D() and hash(inv) != hash(D()):
                    fail = "inverse_hash: %r + (-1 * itself) == the empty " \
                           "duration but hashes differently" % (ka,)
            if fail is None and int_class:
                acc = D()
                for _ in range(abs(n)):
                    acc = acc + a
                if n < 0:
                    acc = -1 * acc
                prod = n * a
                if not (prod == acc) or hash(prod) != hash(acc):
                    fail = "nfold: %d * %r = %s but the %d-fold sum is %s" % (
                        n, ka, prod, n, acc)
                elif n >= 1:
                    # the same sum the way a loop would write it: start from
                    # a and add a with += (which must rebind, not update a)
                    before = (str(a), hash(a))
                    acc2 = a
                    for _ in range(n - 1):
                        acc2 += a
                    if not (acc2 == prod) or (str(a), hash(a)) != before:
                        fail = ("nfold_augmented: x = a; x += a (%d times) "
                                "gives %s for a = %r (now %s), %d * a = %s" % (
                                    n - 1, acc2, ka, a, n, prod))
            # equality / hashing / ordering of a vs b
            if fail is None:
                ea, eb = is_exact_kw(ka), is_exact_kw(kb)
                if ea and eb:
                    exp_eq = la == lb
                elif ea != eb:
                    exp_eq = False
                else:
                    exp_eq = na == nb and la == lb
                decidable = int_class or abs(la - lb) > tol or (
                    not (ea and eb) and (ea != eb or na != nb))
                got_eq = (a == b, b == a, a != b)
                if decidable and got_eq != (exp_eq, exp_eq, not exp_eq):
                    fail = "equality: mode %s %r vs %r: (a==b, b==a, a!=b) = " \
                           "%r, expected equal=%r" % (mode, ka, kb, got_eq, exp_eq)
                elif a == b and hash(a) != hash(b):
                    fail = "hash: %r == %r but hashes differ" % (ka, kb)
                else:
                    ra, rb = rough(cm, ka), rough(cm, kb)
                    t = sign(ra - rb)
                    got = (a < b, a <= b, a > b, a >= b)
                    if int_class or abs(ra - rb) > tol:
                        exp = (t < 0, t <= 0, t > 0, t >= 0)
                        if got != exp:
                            fail = ("ordering: mode %s %r vs %r: (<,<=,>,>=) = "
                                    "%r, rough lengths %s vs %s s" % (
                                        mode, ka, kb, got, float(ra), float(rb)))
                    if fail is None and not (
                            got[0] == (not got[3]) and got[2] == (not got[1])
                            and not (got[0] and got[2])):
                        fail = "ordering_consistency: %r vs %r: %r" % (ka, kb, got)
            if is_exact_kw(ka) and is_exact_kw(kb) and la == lb and ka != kb:
                classes.append("equal_length_other_spelling")
            if not is_exact_kw(ka) or not is_exact_kw(kb):
                classes.append("nominal")
            if "weeks" in ka or "weeks" in kb:
                classes.append("week_form")
        except Exception as e:      # noqa: BLE001
            fail = "exception: mode %s a=%r b=%r c=%r n=%r raised %s: %s" % (
                mode, ka, kb, kc, n, type(e).__name__, e)
    mixed = any(len({v > 0 for v in k.values() if v}) > 1 for k in (ka, kb))
    if mixed:
        classes.append("mixed_sign")
    nontrivial = mixed or set(ka) != set(kb) or ("weeks" in ka) != ("weeks" in kb)
    return Outcome(fail=fail, nontrivial=nontrivial, classes=classes)


@st.composite
def st_dur(draw, decimals):
    kw = draw(G.st_exact_duration_kw(
        max_days=draw(st.sampled_from([3, 60, 1000, 1000] + (
            [] if decimals else [10 ** 6, 10 ** 9]))), decimals=decimals,
        signs=draw(st.sampled_from(["any", "any", "mixed"]))))
    k = draw(st.integers(0, 11))
    if k == 0:
        # purely nominal (no exact part at all)
        return draw(G.st_nominal_kw(max_years=50, max_months=40))
    if k == 1 and "weeks" not in kw:
        # years and months that cancel (12 months per year), plus exact units
        y = draw(st.sampled_from([1, -1, 2, -3]))
        kw.update({"years": y, "months": -12 * y})
        return kw
    if "weeks" not in kw and k < 5:
        kw.update(draw(G.st_nominal_kw(max_years=50, max_months=40)))
    return kw


@st.composite
def respell_len(draw, total):
    """Other spellings of an integer number of seconds."""
    how = draw(st.sampled_from(["weeks", "days", "hours", "minutes", "seconds",
                                "norm", "carry"]))
    if how == "weeks" and total % 604800 == 0 and total:
        return {"weeks": total // 604800}
    if how == "days" and total % 86400 == 0:
        return {"days": total // 86400}
    if how == "hours" and total % 3600 == 0:
        return {"hours": total // 3600}
    if how == "minutes" and total % 60 == 0:
        return {"minutes": total // 60}
    if how == "carry":
        d = total // 86400 + draw(st.integers(-3, 3))
        rest = total - d * 86400
        h = rest // 3600 + draw(st.integers(-30, 30))
        rest -= h * 3600
        mi = rest // 60 + draw(st.integers(-70, 70))
        return {"days": d, "hours": h, "minutes": mi, "seconds": rest - mi * 60}
    if how == "norm":
        sg = 1 if total >= 0 else -1
        t = abs(total)
        return {"days": sg * (t // 86400), "hours": sg * (t % 86400 // 3600),
                "minutes": sg * (t % 3600 // 60), "seconds": sg * (t % 60)}
    return {"seconds": total}


@st.composite
def st_case(draw):
    mode = draw(G.MODE_WEIGHTED)
    dec = draw(st.sampled_from([False, False, False, True]))
    a = draw(st_dur(dec))
    how = draw(st.sampled_from(["indep", "respell", "vary", "respell"]))
    if how == "respell" and M.dkw_is_int(a):
        b = draw(respell_len(int(M.dkw_len(a)) +
                             draw(st.sampled_from([0, 0, 0, 1, -1, 60, -86400]))))
        if draw(st.integers(0, 3)) > 0 or not (
                a.get("years") and a.get("years", 0) * 12 + a.get("months", 0) == 0):
            for k in ("years", "months"):
                if a.get(k):
                    b[k] = a[k]
        if "weeks" in b and (b.get("years") or b.get("months")):
            b["days"] = 7 * b.pop("weeks")
    elif how == "vary":
        b = dict(a)
        k = draw(st.sampled_from(["years", "months", "days", "hours", "minutes",
                                  "seconds"]))
        if "weeks" in b:
            b["weeks"] += draw(st.sampled_from([1, -1]))
        elif dec and draw(st.booleans()):
            # less than a second apart (dyadic fraction: exact in floats)
            b["seconds"] = b.get("seconds", 0) + draw(
                st.sampled_from([0.5, -0.5, 0.25, -0.75]))
        else:
            b[k] = b.get(k, 0) + draw(st.sampled_from([1, -1, 12, -12]))
    else:
        b = draw(st_dur(dec))
    c = draw(st_dur(dec))
    n = draw(st.one_of(st.integers(-50, 50), st.sampled_from([0, 1, -1, 2])))
    case = {"mode": mode, "a": a, "b": b, "c": c, "n": n}
    ctor = draw(st.integers(0, 7))
    if ctor == 0:
        # the constructor's own spellings: standardize=True (carries small
        # units upward) must not change the value
        case["std"] = draw(st.lists(st.booleans(), min_size=3, max_size=3))
        case["std"][0] = True
    if ctor <= 1:
        # weeks given next to other units (folded into days by the constructor)
        for k in (a, b):
            if "weeks" not in k and draw(st.booleans()):
                k["weeks"] = draw(st.sampled_from([1, -1, 2, 5, 52, -53]))
    return case


def run_shard(ctx):
    quick = ctx.tier == "quick"
    ctx.hyp(st_case(), check_case, 3000 if quick else 80000)
