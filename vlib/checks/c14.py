"""C14 - recurrences are values: shifting, equality, hashing, text round trip."""
import itertools

from hypothesis import strategies as st

from vlib import gen as G
from vlib import model as M
from vlib import recs as RC
from vlib import refcal as R
from vlib.runner import Outcome
from vlib.checks.c12 import instants
from vlib.checks.c11 import respell_len

PID = "C14"
RULE = (
    "kind 'shift': (mode, recurrence spec as in C12 incl. single-point ones, "
    "exact shift duration of either sign, operator r+d | d+r | r-(-d)): the "
    "result must == a fresh recurrence built from the reference-shifted "
    "anchors with the same repetitions and interval, its anchors' instants "
    "move by len(d), for exact intervals every member instant moves by "
    "len(d), (r+d)-d == r, and the shifted value survives str -> parse. "
    "kind 'unequal': two specs differing in exactly "
    "one of repetitions / start / end / interval must be !=. kind 'respell': "
    "the same anchors and interval spelled in another offset / representation"
    " / unit must be == with equal hashes and (exact interval) iterate "
    "identically. kind 'roundtrip': parse(str(r)) == r with the same points. "
    "Non-trivial = n >= 2 or single-point; shift crosses a day boundary; "
    "pair differs only in the interval; distinct by case digest.")
ASSUMPTIONS = [
    "reference calendar vlib/refcal.py; whole-second anchors, intervals and "
    "shifts",
    "for bounded series with nominal intervals a re-spelled anchor may "
    "legitimately give another computed far anchor, so equality of "
    "re-spellings is demanded for exact intervals and unbounded series only",
]
K = 12


def anchors(spec):
    if spec["fmt"] == 1:
        return ["start", "second"]
    return ["start"] if spec["fmt"] == 3 else ["end"]


def check_case(case):
    mode, kind, spec = case["mode"], case["kind"], case["spec"]
    cm = R.canon(mode)
    n = spec["reps"]
    d = RC.spec_interval(cm, spec)
    exact = RC.is_exact(d)
    single = n == 1 or RC.is_zero(d)
    classes = ["kind/" + kind, "fmt/%d" % spec["fmt"], "mode/" + cm,
               "interval/" + ("zero" if RC.is_zero(d) else
                              "exact" if exact else "nominal"),
               "reps/" + ("unbounded" if n is None else "1" if n == 1 else ">=2")]
    nontrivial = single or (n is not None and n >= 2)
    fail = None
    with M.use_mode(mode):
        try:
            if kind == "shift_limited":
                # a recurrence cut by the constructor's max_point / min_point:
                # shifting there and back must give the same value again
                down = spec["fmt"] == 4 and n is None
                extra = {"min_point" if down else "max_point":
                         M.make_point(case["limit"])}
                r = RC.build(spec, extra)
                ld = M.make_duration(case["shift"])
                r2 = (r + ld) if case["op"] != "d+r" else (ld + r)
                back = r2 - ld
                text = RC.render(spec) + " limited at " + M.fmt_kw(case["limit"])
                m0 = instants(cm, list(itertools.islice(iter(r), K)))
                mb = instants(cm, list(itertools.islice(iter(back), K)))
                if not (back == r and r == back):
                    fail = "shift_back_limited: ((%s) + d) - d = %s is not " \
                           "equal to the original (limits %s / %s -> %s / %s)" \
                           % (text, M.sp(back), M.sp(r.min_point),
                              M.sp(r.max_point), M.sp(back.min_point),
                              M.sp(back.max_point))
                elif hash(back) != hash(r):
                    fail = "shift_back_limited_hash: %s" % text
                elif m0 != mb:
                    fail = "shift_back_limited_members: %s iterates %r, " \
                           "shifted there and back %r" % (
                               text, [float(x) for x in m0],
                               [float(x) for x in mb])
                return Outcome(fail=fail, nontrivial=True,
                               classes=classes + ["limited"])
            r = RC.build(spec)
            text = RC.render(spec)
            if kind == "shift":
                sd, op = case["shift"], case["op"]
                ld = M.make_duration(sd)
                if op == "r+d":
                    r2 = r + ld
                elif op == "d+r":
                    r2 = ld + r
                else:
                    r2 = r - (-1 * ld)
                length = M.dkw_len(sd)
                moved = dict(spec, via="ctor")
                for a in anchors(spec):
                    moved[a] = RC.ref_step(cm, RC.normalise24(cm, spec[a]), sd, 1)
                exp_r = RC.build(moved)
                if abs(length) >= 86400:
                    classes.append("shift>=1day")
                if not (r2 == exp_r and exp_r == r2):
                    fail = ("shift_eq: mode %s (%s) %s %s = %s, expected %s" % (
                        mode, text, op, RC.render_duration(sd), M.sp(r2),
                        RC.render(moved)))
                elif hash(r2) != hash(exp_r):
                    fail = "shift_hash: %s shifted hashes unlike %s" % (
                        text, RC.render(moved))
                elif r2.repetitions != r.repetitions:
                    fail = "shift_reps: %s has %r repetitions, shifted %r" % (
                        text, r.repetitions, r2.repetitions)
                elif not (r2.duration == r.duration):
                    fail = "shift_interval: %s interval %s became %s" % (
                        text, r.duration, r2.duration)
                else:
                    for nm in ("start_point", "end_point"):
                        a0, a1 = getattr(r, nm), getattr(r2, nm)
                        given = (nm == "start_point") == (spec["fmt"] != 4) \
                            or single
                        if (a0 is None) != (a1 is None):
                            fail = "shift_anchor: %s %s is %s, shifted %s" % (
                                text, nm, M.sp(a0), M.sp(a1))
                        elif a0 is not None and (given or exact):
                            i0 = M.Native(cm, a0, allow24=True).instant
                            i1 = M.Native(cm, a1, allow24=True).instant
                            if i1 - i0 != length:
                                fail = ("shift_anchor: %s %s moved by %s s, "
                                        "shift is %s s" % (text, nm,
                                                           float(i1 - i0),
                                                           float(length)))
                        if fail:
                            break
                if fail is None and (exact or single):
                    m0 = instants(cm, list(itertools.islice(iter(r), K)))
                    m1 = instants(cm, list(itertools.islice(iter(r2), K)))
                    if [x + length for x in m0] != m1:
                        fail = ("shift_members: mode %s (%s) %s %s: members do "
                                "not all move by the shift: %s" % (
                                    mode, text, op, RC.render_duration(sd),
                                    [M.sp(p) for p in itertools.islice(iter(r2), 4)]))
                    elif single and len(m1) != 1:
                        fail = "shift_single: %s shifted iterates %d points" % (
                            text, len(m1))
                if fail is None:
                    back = r2 - ld
                    if not (back == r):
                        fail = "shift_back: ((%s) + d) - d = %s" % (text, M.sp(back))
                if fail is None and all(
                        0 <= moved[a]["year"] <= 9999 or
                        not 0 <= spec[a]["year"] <= 9999
                        for a in anchors(spec)):
                    # a shifted recurrence is a value like any other: it must
                    # survive the text round trip too
                    s2 = str(r2)
                    again = RC.long_lived_parser().parse(s2)
                    if not (again == r2 and r2 == again):
                        fail = ("shift_roundtrip: mode %s (%s) %s %s prints %r "
                                "which parses to %s" % (
                                    mode, text, op, RC.render_duration(sd), s2,
                                    M.sp(again)))
                    elif (exact or single) and instants(cm, list(
                            itertools.islice(iter(again), K))) != m1:
                        fail = "shift_roundtrip_points: %r" % s2
                    classes.append("shift_roundtrip")
            elif kind == "unequal":
                other = case["other"]
                ro = RC.build(other)
                if (r == ro) or not (r != ro) or (ro == r):
                    fail = "unequal: mode %s %s == %s (differ in %s)" % (
                        mode, text, RC.render(other), case["differs"])
                classes.append("differs/" + case["differs"])
                if case["differs"] == "interval":
                    nontrivial = True
            elif kind == "respell":
                other = case["other"]
                ro = RC.build(other)
                must_equal = exact or n is None or single
                eq = (r == ro)
                if must_equal and not (eq and ro == r):
                    fail = "respell_eq: mode %s %s != %s" % (
                        mode, text, RC.render(other))
                elif eq and hash(r) != hash(ro):
                    fail = "respell_hash: %s == %s but hashes differ" % (
                        text, RC.render(other))
                elif eq and (exact or single):
                    m0 = instants(cm, list(itertools.islice(iter(r), K)))
                    m1 = instants(cm, list(itertools.islice(iter(ro), K)))
                    if m0 != m1:
                        fail = "respell_iterate: %s and %s are == but iterate" \
                               " differently" % (text, RC.render(other))
                classes.append("respell/" + ("equal" if eq else "not_equal"))
            else:
                s = str(r)
                if case.get("premode"):
                    # the same text went through the same long-lived parser
                    # under another calendar mode first
                    with M.use_mode(case["premode"]):
                        try:
                            RC.long_lived_parser().parse(s)
                        except Exception:       # noqa: BLE001
                            pass
                    M.lib().Calendar.default().set_mode(mode)
                    classes.append("reparsed_after_mode_switch")
                back = RC.long_lived_parser().parse(s)
                if not (back == r and r == back):
                    fail = "roundtrip_eq: mode %s %s prints %r which parses " \
                           "to %s" % (mode, text, s, M.sp(back))
                elif hash(back) != hash(r):
                    fail = "roundtrip_hash: %r" % s
                else:
                    m0 = instants(cm, list(itertools.islice(iter(r), K)))
                    m1 = instants(cm, list(itertools.islice(iter(back), K)))
                    if m0 != m1:
                        fail = "roundtrip_points: %r re-parsed iterates " \
                               "differently" % s
        except Exception as e:      # noqa: BLE001
            fail = "exception: mode %s %r raised %s: %s" % (
                mode, {k: v for k, v in case.items() if k != "_history"},
                type(e).__name__, e)
    return Outcome(fail=fail, nontrivial=nontrivial, classes=classes)


@st.composite
def st_case(draw):
    kind = draw(st.sampled_from(["shift", "shift", "shift_limited", "unequal",
                                 "respell",
                                 "roundtrip"]))
    if kind == "shift":
        mode, spec = draw(RC.st_spec())
        sd = draw(G.st_exact_duration_kw(
            max_days=draw(st.sampled_from([1, 40, 800])), signs="any"))
        if "weeks" in sd and not sd["weeks"]:
            sd = {"hours": 1}
        return {"kind": kind, "mode": mode, "spec": spec, "shift": sd,
                "op": draw(st.sampled_from(["r+d", "d+r", "r-(-d)"]))}
    if kind == "shift_limited":
        mode, spec = draw(RC.st_spec(max_reps=8))
        sd = draw(G.st_exact_duration_kw(
            max_days=draw(st.sampled_from([1, 40, 800])), signs="any"))
        if "weeks" in sd and not sd["weeks"]:
            sd = {"hours": 1}
        anchor = spec.get("start") or spec.get("end")
        down = spec["fmt"] == 4 and spec["reps"] is None
        limit = dict(anchor, year=anchor["year"] + (-2 if down else 2))
        for k, top in (("week_of_year", 51), ("day_of_year", 360),
                       ("day_of_month", 28)):
            if k in limit:
                limit[k] = min(limit[k], top)
        if limit.get("hour_of_day") == 24:
            limit["hour_of_day"] = 0
        return {"kind": kind, "mode": mode, "spec": dict(spec, via="ctor"),
                "shift": sd, "limit": limit,
                "op": draw(st.sampled_from(["r+d", "d+r"]))}
    if kind == "roundtrip":
        mode, spec = draw(RC.st_spec())
        case = {"kind": kind, "mode": mode, "spec": spec}
        if draw(st.sampled_from([False, True])):
            case["premode"] = draw(st.sampled_from(
                [m for m in R.CANON_MODES if m != R.canon(mode)]))
        return case
    mode, spec = draw(RC.st_spec(
        interval_kind=draw(st.sampled_from(["exact", "exact", "nominal"]))))
    cm = R.canon(mode)
    other = {k: (dict(v) if isinstance(v, dict) else v) for k, v in spec.items()}
    other["via"] = "ctor"
    if kind == "unequal":
        if spec["reps"] == 1:
            spec["reps"] = other["reps"] = draw(st.sampled_from([2, 3, None]))
        if spec["fmt"] == 1 and M.kw_instant(cm, spec["start"]) == \
                M.kw_instant(cm, spec["second"]):
            spec["second"] = other["second"] = RC.ref_step(
                cm, RC.normalise24(cm, spec["start"]), {"hours": 5}, 1)
        differs = draw(st.sampled_from(["repetitions", "anchor", "interval"]))
        if differs == "repetitions":
            n = spec["reps"]
            other["reps"] = draw(st.sampled_from(
                [2, 3] if n is None else [n + 1, n + 1, None]))
        elif differs == "anchor":
            a = "start" if spec["fmt"] != 4 else "end"
            delta = draw(st.sampled_from([{"seconds": 1}, {"days": 1},
                                          {"hours": 1}, {"minutes": 30}]))
            other[a] = RC.ref_step(cm, RC.normalise24(cm, spec[a]), delta, 1)
            if spec["fmt"] == 1:
                other["second"] = RC.ref_step(
                    cm, RC.normalise24(cm, spec["second"]), delta, 1)
        else:
            if spec["fmt"] == 1:
                other["second"] = RC.ref_step(
                    cm, RC.normalise24(cm, spec["second"]),
                    draw(st.sampled_from([{"seconds": 1}, {"days": 1}])), 1)
            else:
                dd = dict(spec["dur"])
                if "weeks" in dd:
                    dd["weeks"] += 1
                else:
                    k = draw(st.sampled_from(
                        [k for k in dd] + ["seconds", "days"]))
                    if k in ("years", "months") or not RC.is_exact(dd) or \
                            draw(st.booleans()):
                        dd[k] = dd.get(k, 0) + 1
                    else:
                        dd["months"] = 1   # exact -> nominal of similar size
                other["dur"] = dd
        return {"kind": kind, "mode": mode, "spec": spec, "other": other,
                "differs": differs}
    # respell
    for a in anchors(spec):
        if draw(st.booleans()) or a == "start":
            inst = int(M.kw_instant(cm, spec[a]))
            nominal = spec["fmt"] != 1 and not RC.is_exact(spec["dur"])
            other[a] = G.respell(draw, cm, inst, allow24=not nominal)
    if spec["fmt"] != 1 and draw(st.booleans()):
        dd = dict(spec["dur"])
        exact_part = {k: v for k, v in dd.items() if k not in ("years", "months")}
        total = int(M.dkw_len(exact_part))
        new = draw(respell_len(total))
        if "weeks" in new and (dd.get("years") or dd.get("months")):
            new = {"days": new["weeks"] * 7}
        if all(v >= 0 for v in new.values()):
            for k in ("years", "months"):
                if dd.get(k):
                    new[k] = dd[k]
            if any(new.values()) or not any(dd.values()):
                other["dur"] = new
    return {"kind": kind, "mode": mode, "spec": spec, "other": other}


def run_shard(ctx):
    quick = ctx.tier == "quick"
    ctx.hyp(st_case(), check_case, 1500 if quick else 40000)
