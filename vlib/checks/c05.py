"""C05 - month and year arithmetic with end-of-period clamping."""
from fractions import Fraction

from hypothesis import strategies as st

from vlib import gen as G
from vlib import model as M
from vlib import refcal as R
from vlib.runner import Outcome

PID = "C05"
RULE = (
    "case = (mode, TimePoint kwargs with hour < 24, nominal duration kwargs "
    "(years and/or months of either sign, optionally mixed with an exact "
    "part of the same sign, or of the opposite sign and of the nominal "
    "part's rough length +-1 day), route p+d | d+p | p-d | add_months(n)). Starting days are biased "
    "to every month end, 29 Feb, day 365/366 and week 52/53. Oracle = the "
    "statement's semantics written on vlib.refcal: exact part first, then n "
    "single-month steps on the calendar form each clamping to the target "
    "month's length, then the year step clamping day-of-month / day-of-year /"
    " week according to the representation; result native fields must equal "
    "the expected ones, with time of day, offset and representation kept; "
    "add_months(n) must equal n single steps. Non-trivial = a clamp happened "
    "or the month walk crossed a year boundary; distinct by case digest.")
ASSUMPTIONS = [
    "reference calendar vlib/refcal.py",
    "24:00 starting points are not generated (the statement does not define "
    "how end-of-day interacts with clamping)",
    "1 microsecond tolerance on the time of day when decimals are involved; "
    "such cases are not judged when the exact part lands within that "
    "tolerance of midnight (float rounding then decides the day the month / "
    "year step starts from)",
]


def expected(cm, kw, dkw, sign):
    """Reference result: (native date tuple, sod Fraction, classes)."""
    rep = M.kw_rep(kw)
    exact = {k: v for k, v in dkw.items() if k not in ("years", "months")}
    local = Fraction(M.kw_dn(cm, kw)) * 86400 + M.kw_sod(kw) + sign * M.dkw_len(exact)
    dn = local.numerator // (local.denominator * 86400)
    sod = local - dn * 86400
    classes = []
    clamped = False
    months = sign * dkw.get("months", 0)
    years = sign * dkw.get("years", 0)
    y, mo, d = R.cal_from_dn(cm, dn)
    if months:
        y2, mo2, d2 = R.add_months_cal(cm, y, mo, d, months)
        if y2 != y:
            classes.append("month_walk_crosses_year")
        # did any single step clamp?
        yy, mm, dd = y, mo, d
        step = 1 if months > 0 else -1
        for _ in range(abs(months)):
            ny, nm, nd = R.add_months_cal(cm, yy, mm, dd, step)
            if nd != dd:
                clamped = True
                classes.append("month_clamp/%d->%d" % (
                    R.mlens(cm, yy)[mm - 1], R.mlens(cm, ny)[nm - 1]))
            yy, mm, dd = ny, nm, nd
        y, mo, d = y2, mo2, d2
        dn = R.dn_from_cal(cm, y, mo, d)
    if rep == "c":
        if years:
            y += years
            nd = min(d, R.mlens(cm, y)[mo - 1])
            if nd != d:
                clamped = True
                classes.append("year_clamp/feb29")
            d = nd
        date = (y, mo, d)
    elif rep == "o":
        y, doy = R.ord_from_dn(cm, dn)
        if years:
            y += years
            nd = min(doy, R.ylen(cm, y))
            if nd != doy:
                clamped = True
                classes.append("year_clamp/day366")
            doy = nd
        date = (y, doy)
    else:
        wy, w, wd = R.week_from_dn(cm, dn)
        if years:
            wy += years
            nw = min(w, R.weeks_in_year(cm, wy))
            if nw != w:
                clamped = True
                classes.append("year_clamp/week53")
            w = nw
        date = (wy, w, wd)
    return date, sod, classes, clamped


def check_case(case):
    mode, kw, dkw, route = case["mode"], case["p"], case["d"], case["route"]
    cm = R.canon(mode)
    rep = M.kw_rep(kw)
    int_class = M.kw_is_int(kw) and M.dkw_is_int(dkw)
    tol = 0 if int_class else M.US
    classes = ["route/" + route, "mode/" + cm, "rep/" + rep,
               "nominal/" + "+".join(k for k in ("years", "months") if dkw.get(k))]
    fail = None
    nontrivial = False
    with M.use_mode(mode):
        try:
            p = M.make_point(kw)
            sign = -1 if route == "p-d" else 1
            if route == "add_months":
                n = dkw["months"]
                q = p.add_months(n)
                steps = p
                for _ in range(abs(n)):
                    steps = steps.add_months(1 if n > 0 else -1)
                ns = M.Native(cm, steps)
            else:
                d = M.make_duration(dkw)
                q = p + d if route == "p+d" else d + p if route == "d+p" else p - d
            date, sod, cls, clamped = expected(cm, kw, dkw, sign)
            if not int_class and min(sod, 86400 - sod) <= tol:
                # decimal fields are binary floats: when the exact part lands
                # within a microsecond of midnight, rounding decides which
                # day the month / year step starts from - not decidable
                return Outcome(skip=True, classes=["ambiguous/day_boundary"])
            classes += cls
            nq = M.Native(cm, q)
            problems = nq.problems
            if problems:
                fail = "fields_valid: mode %s %s %s %s -> %r: %s" % (
                    mode, M.fmt_kw(kw), route, dkw, nq.f, "; ".join(problems))
            elif nq.rep != rep:
                fail = "representation: %s -> %s" % (rep, nq.rep)
            elif nq.date != date:
                fail = ("date: mode %s %s %s %s -> %s (native %r), the calendar"
                        " rule gives %r" % (mode, M.fmt_kw(kw), route, dkw, M.sp(q),
                                            nq.date, date))
            elif abs(nq.sod - sod) > tol:
                fail = "time_of_day: mode %s %s %s %s -> %s, expected second " \
                       "of day %s" % (mode, M.fmt_kw(kw), route, dkw, M.sp(q), float(sod))
            elif (nq.tzh, nq.tzm) != (kw["time_zone_hour"], kw["time_zone_minute"]):
                fail = "offset: zone changed to %r:%r" % (nq.tzh, nq.tzm)
            elif route == "add_months" and (
                    (ns.rep, ns.date, ns.h, ns.m, ns.s) !=
                    (nq.rep, nq.date, nq.h, nq.m, nq.s)):
                fail = ("single_steps: mode %s %s.add_months(%d) = %s but %d "
                        "single steps give %s" % (mode, M.fmt_kw(kw), n, M.sp(q),
                                                  abs(n), M.sp(steps)))
            nontrivial = clamped or "month_walk_crosses_year" in cls
        except Exception as e:      # noqa: BLE001
            fail = "exception: mode %s %s %s %s raised %s: %s" % (
                mode, M.fmt_kw(kw), route, dkw, type(e).__name__, e)
    return Outcome(fail=fail, nontrivial=nontrivial, classes=classes)


NO24_INT = ("hms",)
NO24_ALL = ("hms", "hms", "hms", "hms,tt", "hm,nn", "h,ii")


@st.composite
def st_case(draw):
    mode = draw(G.MODE_WEIGHTED)
    cm = R.canon(mode)
    dec = draw(st.sampled_from([False, False, False, True]))
    dn = None
    k = draw(st.integers(0, 7))
    if k < 2:
        # last/first days of an ISO week-year (week 52/53 as a start)
        y = draw(G.st_year())
        dn = R.weekyear_start(cm, y + 1) - draw(st.integers(-7, 14))
    elif k < 4:
        # a month end / leap day / day 365-366
        y = draw(G.st_year())
        mo = draw(st.sampled_from([1, 2, 2, 2, 3, 4, 5, 6, 7, 8, 9, 10, 11, 12, 12]))
        ml = R.mlens(cm, y)[mo - 1]
        dn = R.dn_from_cal(cm, y, mo, draw(st.sampled_from(
            [ml, ml, ml - 1, min(ml, 28), min(ml, 29), min(ml, 30)])))
    reps = "cow"
    leap_focus = False
    if k == 4 and cm == "gregorian":
        # 29 Feb / day 366 of a leap year with a years-only step
        y = 4 * draw(st.integers(-600, 2600))
        if R.is_leap(cm, y):
            leap_focus = True
            if draw(st.booleans()):
                dn, reps = R.dn_from_cal(cm, y, 2, 29), "c"
            else:
                dn, reps = R.dn_from_ord(cm, y, 366), "o"
    kw = draw(G.st_point_kw(cm, forms=NO24_ALL if dec else NO24_INT, dn=dn,
                            reps=reps))
    route = draw(st.sampled_from(["p+d", "p+d", "d+p", "p-d", "p-d", "add_months"]))
    if leap_focus and route != "add_months":
        dkw = {"years": draw(st.one_of(st.sampled_from([1, -1, 2, 3, 4, -4, 100]),
                                       st.integers(-410, 410)))}
        if draw(st.sampled_from([False, False, True])):
            dkw["months"] = draw(st.sampled_from([12, -12, 24, 1, -1, 48]))
        return {"mode": mode, "p": kw, "d": dkw, "route": route}
    if route == "add_months":
        n = draw(st.one_of(st.sampled_from([1, -1, 11, -11, 12, -12, 13, -13, 2, -2]),
                           st.integers(-50, 50)))
        return {"mode": mode, "p": kw, "d": {"months": n}, "route": route}
    dkw = draw(G.st_nominal_kw())
    if draw(st.integers(0, 7)) == 0:
        # opposite signs: an exact part that cancels the nominal part's rough
        # length (a year as the mode's common year, a month as 30 days), or
        # misses it by a day
        dkw = draw(G.st_nominal_kw(max_years=3, max_months=14))
        rough = dkw.get("years", 0) * R.ylen(cm, 2001) + dkw.get("months", 0) * 30
        back = -rough + draw(st.sampled_from([0, 0, 0, 1, -1]))
        if draw(st.booleans()):
            dkw["days"] = back
        else:
            dkw["days"], dkw["hours"] = back + 1, -24
        return {"mode": mode, "p": kw, "d": dkw, "route": route}
    if draw(st.sampled_from([False, False, True])):
        dkw.update(draw(G.st_exact_duration_kw(
            max_days=draw(st.sampled_from([3, 40, 800])),
            decimals=dec and draw(st.booleans()),
            signs="pos" if all(v >= 0 for v in dkw.values()) else "neg")))
        if "weeks" in dkw:
            dkw["days"] = 7 * dkw.pop("weeks")
    return {"mode": mode, "p": kw, "d": dkw, "route": route}


def run_shard(ctx):
    quick = ctx.tier == "quick"
    ctx.hyp(st_case(), check_case, 2500 if quick else 70000)
