"""C18 - Unix time and the system's local UTC offset are converted exactly."""
from fractions import Fraction

from hypothesis import strategies as st

from vlib import gen as G
from vlib import model as M
from vlib import refcal as R
from vlib.runner import Outcome
from vlib.checks.c06 import FakeTime, fake_system_zone, expected_local

PID = "C18"
RULE = (
    "kind 'zone' (enumerated): every system zone configuration standard "
    "offset -1440..+1440 whole minutes x (daylight flag, tm_isdst in "
    "{0,1,-1}) x daylight offset (quick: a boundary set of 25 values; "
    "thorough: every whole minute -1440..+1440 for the configurations where "
    "it is consulted), through a fake time module: get_local_time_zone() must "
    "be the exact (hours, minutes) pair both carrying the sign of the "
    "effective offset, and the basic / extended / reduced text forms must "
    "spell it ('Z' for zero, reduced falling back to hhmm when minutes are "
    "non-zero). kind 'from_epoch' (Hypothesis): n seconds (integers to "
    "+-1.2e11 quick / +-3.8e11 thorough biased to day/year/leap boundaries; "
    "non-negative fractions) -> TimePoint at 1970-01-01T00Z + n in UTC or the "
    "faked local zone; kind 'strptime_epoch': the same through "
    "TimePointParser.strptime(str(n), '%s') with and without an assumed zone. "
    "kind 'to_epoch': seconds_since_unix_epoch of points in "
    "any representation/offset == whole seconds from the epoch. Non-trivial: "
    "zone configurations with a negative or non-zero-minute effective offset; "
    "n crossing a year boundary; points not in UTC calendar form. Distinct by "
    "construction (enumeration) or digest.")
ASSUMPTIONS = [
    "reference calendar vlib/refcal.py; the epoch is 1970-01-01T00:00:00Z of "
    "the active calendar mode",
    "fractional second counts and decimal-form points are bounded by ~1e9 s "
    "from the epoch so that a double still "
    "resolves a microsecond; fractional instants accept floor or truncation "
    "in seconds_since_unix_epoch (the statement does not choose), evaluated "
    "within 1 microsecond of the instant (decimal fields are binary floats)",
    "the system zone is substituted through metomi.isodatetime.timezone.time",
]


def EXHAUSTIVE(tier):
    return True


EXHAUSTIVE_NOTE = (
    "the system-zone sub-domain is enumerated completely: all 2881 standard "
    "offsets x 6 flag combinations x daylight offsets (quick: 25 boundary "
    "values; thorough: all 2881 where daylight saving is in effect); the "
    "second-count sub-domain is sampled")

DST_BOUNDARY = [0, 1, -1, 30, -30, 59, -59, 60, -60, 61, -61, 90, -150, 345,
                -210, 765, 825, -570, 1439, -1439, 1440, -1440, 119, -121, 600]
FLAGS = [(0, 0), (0, 1), (0, -1), (1, 0), (1, 1), (1, -1)]


def fmt_expect(h, m):
    if h == 0 and m == 0:
        return "Z", "Z", "Z"
    sg = "-" if (h < 0 or m < 0) else "+"
    basic = "%s%02d%02d" % (sg, abs(h), abs(m))
    ext = "%s%02d:%02d" % (sg, abs(h), abs(m))
    red = "%s%02d" % (sg, abs(h)) if m == 0 else basic
    return basic, ext, red


def check_zone_block(case):
    from metomi.isodatetime import timezone as tzmod
    mode_cls = tzmod.TimeZoneFormatMode
    old = tzmod.time
    n = 0
    nt = 0
    fail = None
    dsts = (range(-1440, 1441) if case["dst"] == "all" else case["dst"])
    try:
        for std in range(case["std_lo"], case["std_hi"]):
            for daylight, isdst in case["flags"]:
                for dst in dsts:
                    cfg = (std, dst, daylight, isdst)
                    tzmod.time = FakeTime(*cfg)
                    eh, em = expected_local(cfg)
                    got = tzmod.get_local_time_zone()
                    n += 1
                    if em != 0 or eh < 0:
                        nt += 1
                    if tuple(got) != (eh, em) or not all(
                            type(x) is int for x in got):
                        fail = ("local_zone: standard %+d min, daylight %+d "
                                "min, daylight flag %d, tm_isdst %d -> %r, "
                                "expected %r" % (std, dst, daylight, isdst,
                                                 tuple(got), (eh, em)))
                        break
                    texts = (tzmod.get_local_time_zone_format(),
                             tzmod.get_local_time_zone_format(mode_cls.extended),
                             tzmod.get_local_time_zone_format(mode_cls.reduced))
                    if texts != fmt_expect(eh, em):
                        fail = ("local_zone_text: standard %+d min, daylight "
                                "%+d min, flags (%d,%d): (basic, extended, "
                                "reduced) = %r, expected %r" % (
                                    std, dst, daylight, isdst, texts,
                                    fmt_expect(eh, em)))
                        break
                if fail:
                    break
            if fail:
                break
    except Exception as e:      # noqa: BLE001
        fail = "exception: zone block %r raised %s: %s" % (
            case, type(e).__name__, e)
    finally:
        tzmod.time = old
    return Outcome(fail=fail, nontrivial=True, weight=n, distinct=nt,
                   classes=["zone_block/" + ("dst_all" if case["dst"] == "all"
                                             else "dst_boundary")])


def check_case(case):
    kind = case["kind"]
    if kind == "zone":
        return check_zone_block(case)
    mode = case["mode"]
    cm = R.canon(mode)
    classes = ["kind/" + kind, "mode/" + cm]
    fail = None
    nontrivial = False
    D = M.lib()
    epoch = Fraction(R.UNIX_EPOCH_DN[cm]) * 86400
    with M.use_mode(mode):
        try:
            if kind == "from_epoch":
                n, utc, cfg = case["n"], case["utc"], tuple(case["sys"])
                with fake_system_zone(cfg):
                    p = D.get_timepoint_from_seconds_since_unix_epoch(n, utc=utc)
                nat = M.Native(cm, p)
                ez = (0, 0) if utc else expected_local(cfg)
                isint = float(n).is_integer()
                exp = epoch + Fraction(float(n))
                problems = nat.problems
                if problems:
                    fail = "from_epoch_valid: n=%r -> %r: %s" % (n, nat.f, problems)
                elif (nat.tzh, nat.tzm) != ez:
                    fail = "from_epoch_zone: n=%r utc=%r under %r -> zone " \
                           "(%r,%r), expected %r" % (n, utc, cfg, nat.tzh,
                                                     nat.tzm, ez)
                elif abs(nat.instant - exp) > (0 if isint else M.US):
                    fail = ("from_epoch_instant: mode %s n=%r utc=%r under %r "
                            "-> %s, off by %s s" % (mode, n, utc, cfg, M.sp(p),
                                                    float(nat.instant - exp)))
                y = R.year_of_dn(cm, int(exp // 86400))
                nontrivial = y != 1970 or ez != (0, 0)
                classes += ["utc" if utc else "local",
                            "int" if isint else "fraction",
                            "negative" if n < 0 else "nonnegative"]
                if abs(y - 1970) >= 100:
                    classes.append("|years|>=100")
            elif kind == "strptime_epoch":
                # building from n through the parser's %s directive
                from metomi.isodatetime import parsers
                n, cfg = case["n"], tuple(case["sys"])
                parser = parsers.TimePointParser(
                    assumed_time_zone=tuple(case["assumed"])
                    if case["assumed"] is not None else None)
                with fake_system_zone(cfg):
                    p = parser.strptime(case["fmt"].replace("%s", str(n)),
                                        case["fmt"])
                    back = p.seconds_since_unix_epoch
                nat = M.Native(cm, p)
                if nat.problems:
                    fail = "strptime_epoch_valid: %r -> %r: %s" % (
                        n, nat.f, nat.problems)
                elif nat.instant != epoch + n:
                    fail = ("strptime_epoch_instant: mode %s strptime(%r, %r) "
                            "with assumed zone %r under system zone %r -> %s, "
                            "off by %s s" % (mode, str(n), case["fmt"],
                                             case["assumed"], cfg, M.sp(p),
                                             float(nat.instant - epoch - n)))
                elif back != str(n):
                    fail = "strptime_epoch_back: %r -> %s -> %r" % (
                        n, M.sp(p), back)
                nontrivial = case["assumed"] is not None or n < 0
                classes += ["assumed" if case["assumed"] is not None else
                            "no_assumed_zone"]
            else:
                kw = case["p"]
                p = M.make_point(kw)
                got = p.seconds_since_unix_epoch
                true = M.kw_instant(cm, kw) - epoch
                ok = set()
                # decimal forms are held as binary floats by the library, also
                # when the fraction happens to be zero (T00,0+56:03): the
                # count is evaluated within 1 microsecond of the instant
                float_form = any(k.endswith("_decimal") for k in kw)
                for t in ((true,) if true.denominator == 1 and not float_form
                          else (true - M.US, true, true + M.US)):
                    lo = t.numerator // t.denominator       # floor
                    ok.add(lo)
                    if t < 0 and t != lo:
                        ok.add(lo + 1)                      # truncation
                if not isinstance(got, str) or not got.lstrip("-").isdigit() \
                        or int(got) not in ok:
                    fail = ("to_epoch: mode %s %s .seconds_since_unix_epoch = "
                            "%r, the instant is %s s from the epoch" % (
                                mode, M.fmt_kw(kw), got, float(true)))
                nontrivial = M.kw_rep(kw) != "c" or M.kw_tz(kw) != 0
                classes += ["rep/" + M.kw_rep(kw), "form/" + M.kw_form(kw),
                            "before_1970" if true < 0 else "after_1970"]
        except Exception as e:      # noqa: BLE001
            fail = "exception: mode %s %r raised %s: %s" % (
                mode, {k: v for k, v in case.items() if k != "_history"},
                type(e).__name__, e)
    return Outcome(fail=fail, nontrivial=nontrivial, classes=classes)


SYS_MIN = st.one_of(st.sampled_from(DST_BOUNDARY), st.integers(-1440, 1440))


@st.composite
def st_from_epoch(draw, big):
    mode = draw(G.MODE_WEIGHTED)
    cm = R.canon(mode)
    how = draw(st.integers(0, 9))
    if how < 5:
        # a boundary: start of a year +- a little
        y = draw(st.one_of(st.integers(1970 - big, 1970 + big),
                           st.sampled_from([1969, 1970, 1971, 1972, 1900, 2000,
                                            2001, 2038, 2100, 1600, 2400])))
        y = min(max(y, 1970 - big), 1970 + big)
        base = (R.days_before_year(cm, y) - R.UNIX_EPOCH_DN[cm]) * 86400
        n = base + draw(st.sampled_from([0, -1, 1, 86399, -86400, 59 * 86400,
                                         60 * 86400, 3600, -3600]))
    elif how < 8:
        n = draw(st.integers(-big * 366 * 86400, big * 366 * 86400))
    elif how == 8:
        n = draw(st.sampled_from([0, 1, -1, 2 ** 31 - 1, 2 ** 31, -2 ** 31,
                                  86400, -86400, 946684800, 951782400]))
    else:
        n = draw(st.integers(0, 10 ** 9)) + draw(st.sampled_from(
            [0.5, 0.25, 0.125, 0.000001, 0.999999, 0.1, 0.7]))
    if isinstance(n, int) and draw(st.booleans()):
        n = float(n) if abs(n) < 2 ** 53 else n
    return {"kind": "from_epoch", "mode": mode, "n": n,
            "utc": draw(st.booleans()),
            "sys": [draw(SYS_MIN), draw(SYS_MIN), draw(st.sampled_from([0, 1])),
                    draw(st.sampled_from([0, 1, -1]))]}


@st.composite
def st_to_epoch(draw):
    mode = draw(G.MODE_WEIGHTED)
    cm = R.canon(mode)
    if draw(st.sampled_from([True, True, False])):
        kw = draw(G.st_point_kw(cm, forms=G.INT_FORMS, years=st.one_of(
            G.st_year(), st.sampled_from([1969, 1970, 1971, 1970, 1969]))))
    else:
        # decimal forms: stay within ~1e9 s of the epoch so that a double
        # still resolves a microsecond in the library's float arithmetic
        kw = draw(G.st_point_kw(cm, years=st.integers(1940, 2000)))
    return {"kind": "to_epoch", "mode": mode, "p": kw}


@st.composite
def st_strptime_epoch(draw):
    c = draw(st_from_epoch(300))
    n = c["n"]
    n = int(n) if float(n).is_integer() else int(n)
    return {"kind": "strptime_epoch", "mode": c["mode"], "n": n,
            "sys": c["sys"], "fmt": draw(st.sampled_from(["%s", "%s", "@%s"])),
            "assumed": list(draw(G.st_tz())) if draw(st.booleans()) else None}


def zone_jobs(tier):
    jobs = []
    step = 60
    for lo in range(-1440, 1441, step):
        hi = min(lo + step, 1441)
        jobs.append({"kind": "zone", "std_lo": lo, "std_hi": hi,
                     "dst": DST_BOUNDARY, "flags": FLAGS})
        if tier == "thorough":
            jobs.append({"kind": "zone", "std_lo": lo, "std_hi": hi,
                         "dst": "all", "flags": [(1, 1)]})
    return jobs


def run_shard(ctx):
    for i, case in enumerate(zone_jobs(ctx.tier)):
        if i % ctx.nshards != ctx.index:
            continue
        out = ctx.observe(case, check_case)
        if out.fail:
            return
    quick = ctx.tier == "quick"
    big = 3800 if quick else 12000
    ctx.hyp(st_from_epoch(big), check_case, 600 if quick else 4000)
    ctx.hyp(st_to_epoch(), check_case, 1500 if quick else 40000, seed_salt=1)
    ctx.hyp(st_strptime_epoch(), check_case, 300 if quick else 6000, seed_salt=2)
