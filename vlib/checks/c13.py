"""C13 - recurrence queries agree with iteration."""
import itertools

from hypothesis import strategies as st

from vlib import gen as G
from vlib import model as M
from vlib import recs as RC
from vlib import refcal as R
from vlib.runner import Outcome
from vlib.checks.c12 import instants

PID = "C13"
RULE = (
    "case = (mode, recurrence spec as in C12, probe points): probes lie "
    "before, on, between and after members; members are re-spelled in other "
    "UTC offsets / representations / 24:00 form / decimal hour or minute "
    "spellings (dyadic fractions); the last member of a bounded "
    "series is always probed; one case in six also passes the constructor's "
    "max_point (min_point for a series that runs backwards) at or between "
    "members, which bounds the series like an end point. Oracle = the library's own iteration "
    "(materialised past every probe; iteration itself is decided by C12): "
    "get_is_valid(p) <=> a member has p's instant (also for probes a fraction "
    "of a second off a member); r[i] is the i-th member "
    "(IndexError past a bounded end); get_next/get_prev move to the adjacent "
    "member or None at the ends (both directions for exact intervals, the "
    "iteration direction for nominal ones); get_first_after(p) is the "
    "earliest member strictly later than p, the first member when p precedes "
    "the series, None when no later member exists (recurrences with a start "
    "point, whole-second probes). Non-trivial = a probe is a member in "
    "another spelling, lies strictly between two members, or is the last "
    "member; distinct by case digest.")
ASSUMPTIONS = [
    "instants of probes come from vlib/refcal.py; instants of members from "
    "their native fields",
    "unbounded series are materialised to 60 members; probes beyond that "
    "horizon are not judged",
]
KM = 60


def inst_is_fractional(kw):
    return any(k.endswith("_decimal") and kw[k] for k in kw)


def check_case(case):
    mode, spec, probes = case["mode"], case["spec"], case["probes"]
    cm = R.canon(mode)
    n = spec["reps"]
    d = RC.spec_interval(cm, spec)
    exact = RC.is_exact(d)
    classes = ["fmt/%d" % spec["fmt"], "mode/" + cm,
               "interval/" + ("zero" if RC.is_zero(d) else
                              "exact" if exact else "nominal"),
               "reps/" + ("unbounded" if n is None else "bounded")]
    fail = None
    nontrivial = False
    with M.use_mode(mode):
        try:
            descending = spec["fmt"] == 4 and n is None
            extra = None
            if case.get("limit"):
                # the constructor's max_point (min_point for a series that
                # runs backwards) cuts the far end of the series
                extra = {"min_point" if descending else "max_point":
                         M.make_point(case["limit"])}
                classes.append("limit/" + ("min_point" if descending else
                                           "max_point"))
            r = RC.build(spec, extra)
            if extra:
                # an anchor outside its own limit is a degenerate configuration
                # the statement says nothing about (for bounded month/year
                # series the library's derived anchor can differ from the
                # reference series the limit was drawn from, see F1)
                anchor = r.end_point if descending else r.start_point
                ia = M.Native(cm, anchor, allow24=True).instant
                il = M.kw_instant(cm, case["limit"])
                if (il > ia) if descending else (il < ia):
                    return Outcome(skip=True, classes=["limit/before_anchor"])
            members = list(itertools.islice(iter(r), KM + 1))
            complete = len(members) <= KM       # whole (bounded) series seen
            members = members[:KM]
            mi = instants(cm, members)
            text = RC.render(spec)
            has_start = r.start_point is not None
            lo, hi = (min(mi), max(mi)) if mi else (None, None)
            # ---- indexing
            for i in case["indices"]:
                if fail:
                    break
                if i < len(members):
                    got = M.Native(cm, r[i], allow24=True).instant
                    if got != mi[i]:
                        fail = "getitem: %s [%d] = %s, iteration gives %s" % (
                            text, i, M.sp(r[i]), M.sp(members[i]))
                elif complete:
                    try:
                        got = r[i]
                        fail = "getitem_end: %s has %d points but [%d] = %s" % (
                            text, len(members), i, M.sp(got))
                    except IndexError:
                        pass
            # ---- neighbours
            for k in case["neighbours"]:
                if fail or k >= len(members):
                    break
                m_ = members[k]
                fwd = r.get_prev(m_) if descending else r.get_next(m_)
                bwd = r.get_next(m_) if descending else r.get_prev(m_)
                names = ("get_prev", "get_next") if descending else \
                    ("get_next", "get_prev")
                # in iteration direction
                if k + 1 < len(members):
                    if fwd is None or M.Native(cm, fwd, allow24=True).instant \
                            != mi[k + 1]:
                        fail = "%s: %s of member #%d %s is %s, iteration gives" \
                               " %s" % (names[0], text, k, M.sp(m_), M.sp(fwd),
                                        M.sp(members[k + 1]))
                elif complete and fwd is not None:
                    fail = "%s_end: %s of the last member %s is %s, not None" \
                           % (names[0], text, M.sp(m_), M.sp(fwd))
                if fail is None and exact and not RC.is_zero(d):
                    if k > 0:
                        if bwd is None or M.Native(
                                cm, bwd, allow24=True).instant != mi[k - 1]:
                            fail = "%s: %s of member #%d %s is %s, iteration " \
                                   "gives %s" % (names[1], text, k, M.sp(m_),
                                                 M.sp(bwd), M.sp(members[k - 1]))
                    elif bwd is not None:
                        fail = "%s_end: %s of the first member %s is %s, not " \
                               "None" % (names[1], text, M.sp(m_), M.sp(bwd))
            # ---- probes
            for pk in probes:
                if fail:
                    break
                ip = M.kw_instant(cm, pk)
                p = M.make_point(pk)
                beyond = (not complete) and (
                    (ip > hi) if not descending else (ip < lo))
                if beyond:
                    classes.append("probe/beyond_horizon")
                    continue
                is_member = ip in mi
                if is_member:
                    k = mi.index(ip)
                    mk = dict(members[k].get_props())
                    other = (M.kw_rep(pk) != M.Native(cm, members[k],
                                                      allow24=True).rep or
                             M.kw_tz(pk) != mk["time_zone"].hours * 3600 +
                             mk["time_zone"].minutes * 60 or
                             pk.get("hour_of_day") == 24)
                    if other:
                        nontrivial = True
                        classes.append("probe/member_other_spelling")
                    if complete and k == len(mi) - 1:
                        nontrivial = True
                        classes.append("probe/last_member")
                elif lo is not None and lo < ip < hi:
                    nontrivial = True
                    classes.append("probe/between")
                elif lo is not None:
                    classes.append("probe/outside")
                fractional = ip.denominator != 1
                spelled_decimal = any(k.endswith("_decimal") for k in pk)
                if fractional:
                    classes.append("probe/fractional_second")
                elif spelled_decimal:
                    classes.append("probe/decimal_spelling")
                    nontrivial = nontrivial or is_member
                got = r.get_is_valid(p)
                if bool(got) != is_member:
                    fail = "get_is_valid: %s .get_is_valid(%s) = %r but " \
                           "iteration %s a point at that instant" % (
                               text, M.fmt_kw(pk), got,
                               "yields" if is_member else "never yields")
                    break
                # (a decimal-minute probe + an interval in seconds is float
                # arithmetic inside the library: 59.00000000000006 s; the
                # clause is stated for whole-second probes)
                if has_start and not descending and not fractional and \
                        not spelled_decimal:
                    later = [j for j, x in enumerate(mi) if x > ip]
                    got = r.get_first_after(p)
                    if later:
                        j = min(later, key=lambda q: mi[q])
                        if got is None or M.Native(cm, got, allow24=True
                                                   ).instant != mi[j]:
                            fail = ("get_first_after: %s .get_first_after(%s) ="
                                    " %s, the earliest later member is %s" % (
                                        text, M.fmt_kw(pk), M.sp(got),
                                        M.sp(members[j])))
                    elif complete and got is not None:
                        fail = ("get_first_after_end: %s .get_first_after(%s) = "
                                "%s but no later member exists" % (
                                    text, M.fmt_kw(pk), M.sp(got)))
        except Exception as e:      # noqa: BLE001
            fail = "exception: mode %s %s probes %r raised %s: %s" % (
                mode, RC.render(spec), [M.fmt_kw(p) for p in probes],
                type(e).__name__, e)
    return Outcome(fail=fail, nontrivial=nontrivial, classes=classes)


@st.composite
def st_case(draw):
    mode, spec = draw(RC.st_spec(max_reps=30))
    cm = R.canon(mode)
    n = spec["reps"]
    ref, total = RC.ref_series(cm, spec, 12 if n is None else min(n, 30))
    ri = [int(M.kw_instant(cm, k)) for k in ref]
    probes = []
    cands = []
    for j, x in enumerate(ri):
        cands += [("member", x)] * 2
        if j + 1 < len(ri) and abs(ri[j + 1] - x) > 1:
            cands += [("between", (x + ri[j + 1]) // 2),
                      ("between", x + (1 if ri[j + 1] > x else -1))]
    cands += [("outside", min(ri) - draw(st.sampled_from([1, 60, 86400, 10 ** 6]))),
              ("outside", max(ri) + draw(st.sampled_from([1, 60, 86400, 10 ** 6])))]
    picks = draw(st.lists(st.sampled_from(cands), min_size=1, max_size=4))
    if total is not None:
        picks.append(("member", ri[-1] if spec["fmt"] != 4 or n is not None
                      else ri[0]))
        picks.append(("member", max(ri)))
    for _, inst in picks:
        probes.append(G.respell(draw, cm, inst))
    if draw(st.integers(0, 2)) == 0:
        # a member written with a decimal hour / minute (dyadic fractions, in
        # an offset a multiple of 15 minutes from the series' own, so that no
        # float rounding is involved)
        akw = spec.get("start") or spec.get("end")
        own = akw["time_zone_hour"] * 60 + akw["time_zone_minute"]
        tot = own + 15 * draw(st.sampled_from([0, 0, 4, -2, 1, -22, 96]))
        if abs(tot) > 5999:     # outside +-99:59: stay in the series' offset
            tot = own
        tzh = abs(tot) // 60 * (1 if tot >= 0 else -1)
        tz = (tzh, tot - tzh * 60)
        probes.append(G.respell(draw, cm, draw(st.sampled_from(ri)), tz=tz,
                                decimal=True, allow24=False))
    if draw(st.sampled_from([False, True])):
        # a probe a fraction of a second after a member is not a member
        # (get_is_valid only; get_first_after is stated for whole seconds)
        kw = G.respell(draw, cm, draw(st.sampled_from(ri)), allow24=False)
        kw["second_of_minute_decimal"] = draw(st.sampled_from([0.5, 0.25, 0.001,
                                                               0.999]))
        probes.append(kw)
    top = len(ri) + 2
    limit = None
    if draw(st.integers(0, 5)) == 0:
        # never before the anchor: an anchor outside min/max_point is a
        # degenerate configuration the statement says nothing about
        limit = G.respell(draw, cm, draw(st.sampled_from(
            [c for c in cands if c[0] != "outside"]))[1])
    return {"limit": limit, "mode": mode, "spec": spec, "probes": probes,
            "indices": draw(st.lists(st.integers(0, top), min_size=1, max_size=3)),
            "neighbours": draw(st.lists(st.integers(0, max(len(ri) - 1, 0)),
                                        min_size=1, max_size=3)) + [len(ri) - 1]}


def run_shard(ctx):
    quick = ctx.tier == "quick"
    ctx.hyp(st_case(), check_case, 1000 if quick else 25000)
