"""C10 - durations survive a round trip through text."""
from hypothesis import strategies as st

from vlib import model as M
from vlib.runner import Outcome

PID = "C10"
RULE = (
    "kind 'obj': single-signed Duration kwargs (each of Y/M/D/h/m/s absent, "
    "zero or present; ints for Y/M/D/W; ints, short decimals and arbitrary "
    "finite floats for h/m/s; or whole weeks): parse(str(d)) == d, equal "
    "hashes, str a fixpoint, components preserved. kind 'text': designator "
    "strings rendered by our own encoder (PnYnMnDTnHnMnS with ',' or '.' "
    "decimals on the smallest unit, PnW, leading '-') must decode to exactly "
    "the spelled components. kind 'alt': P[YYYY]-[MM]-[DD]T[hh]:[mm]:[ss] in "
    "basic/extended, calendar/ordinal spelling with values inside the ISO "
    "carry-over limits must equal the designator spelling. All cases of a "
    "shard go through one long-lived DurationParser. Non-trivial = >= 2"
    " non-zero units, or a decimal, a negative sign or week form; distinct by "
    "case digest.")
ASSUMPTIONS = [
    "years, months and weeks of any size (to 1e20: they are exact integers in "
    "the library); day counts stay below 1e11 because the library folds days "
    "into float seconds for == / hash, which is exact only below 2**53 s; "
    "whole numbers held in floats (accepted by the constructor) up to 1e9",
    "only finite numbers; decimals in generated *text* sit on the smallest "
    "unit present (ISO rule); str(d) output may carry decimals on several "
    "units and is still required to round-trip",
    "alternative spelling restricted to complete date + complete time forms, "
    "date-only complete forms and the reduced date-only forms PYYYY-MM / PYYYY"
    " (which the library accepts)  (values <= 12 months, 30 days, 365 ordinal "
    "days, 24 h, 60 min, 60 s)",
]

UNITS = ("years", "months", "days", "hours", "minutes", "seconds")


_PARSER = []


def parser():
    """One DurationParser per process, as an application would hold it: what
    it parsed before (a negative duration, another spelling) must not leak
    into the next parse.  A failure that needs the earlier cases is replayed
    with its history (runner)."""
    if not _PARSER:
        from metomi.isodatetime import parsers
        _PARSER.append(parsers.DurationParser())
    return _PARSER[0]


def comps(d):
    if d.get_is_in_weeks():
        return ("W", d.weeks)
    return tuple(getattr(d, u) for u in UNITS)


def check_case(case):
    kind = case["kind"]
    classes = ["kind/" + kind]
    fail = None
    nontrivial = False
    try:
        P = parser()
        if kind == "obj":
            dkw = case["d"]
            d = M.make_duration(dkw)
            s = str(d)
            d2 = P.parse(s)
            nz = [k for k, v in dkw.items() if v]
            neg = any(v < 0 for v in dkw.values())
            dec = any(isinstance(v, float) and not v.is_integer()
                      for v in dkw.values())
            nontrivial = len(nz) >= 2 or neg or dec or (
                "weeks" in dkw and dkw["weeks"] != 0)
            classes += ["neg" if neg else "nonneg",
                        "decimal" if dec else "integer",
                        "weeks" if "weeks" in dkw else "units/%d" % len(nz)]
            if not (d2 == d and d == d2):
                fail = "roundtrip_eq: Duration(%r) prints %r which parses to " \
                       "%r (!= original)" % (dkw, s, comps(d2))
            elif hash(d2) != hash(d):
                fail = "roundtrip_hash: Duration(%r) -> %r hashes differently" \
                       % (dkw, s)
            elif str(d2) != s:
                fail = "fixpoint: str(parse(%r)) == %r" % (s, str(d2))
            elif nz and comps(d2) != comps(d):
                fail = "components: Duration(%r) -> %r -> %r, original %r" % (
                    dkw, s, comps(d2), comps(d))
        elif kind == "text":
            text, exp = case["text"], case["expect"]
            d = P.parse(text)
            neg = text.startswith("-")
            nz = [k for k, v in exp.items() if v]
            dec = "," in text or "." in text
            nontrivial = len(nz) >= 2 or neg or dec or "weeks" in exp
            classes += ["neg" if neg else "nonneg",
                        "decimal" if dec else "integer",
                        "weeks" if "weeks" in exp else "units/%d" % len(nz)]
            if "weeks" in exp:
                ok = d.get_is_in_weeks() and d.weeks == exp["weeks"] \
                    if exp["weeks"] else M.dur_len(d) == 0
            else:
                if d.get_is_in_weeks():
                    ok = False
                else:
                    ok = all(getattr(d, u) == exp.get(u, 0) for u in UNITS)
            if not ok:
                fail = "decode: %r parsed to %r, spelled components %r" % (
                    text, comps(d), exp)
        else:
            alt, desig = case["alt"], case["desig"]
            a = P.parse(alt)
            b = P.parse(desig)
            exp = case["expect"]
            nz = [k for k, v in exp.items() if v]
            nontrivial = len(nz) >= 2
            classes += [case["shape"]]
            dec = case["shape"].endswith("/decimal")
            # A decimal fraction reaches the two parsers through different
            # float expressions (int + 0.f vs float("i.f")), which may differ
            # in the last bit; the statement promises the same duration, not
            # the same bit pattern, so decimals are compared within 1 us.
            if dec:
                same = (not a.get_is_in_weeks() and a.years == b.years and
                        a.months == b.months and
                        abs(M.dur_len(a) - M.dur_len(b)) <= M.US)
            else:
                same = a == b and hash(a) == hash(b)
            if not same:
                fail = "alt_eq: %r parsed to %r but %r parsed to %r" % (
                    alt, comps(a), desig, comps(b))
            elif a.get_is_in_weeks() or any(
                    abs(getattr(a, u) - exp.get(u, 0)) > (
                        1e-9 if dec and u in UNITS[3:] else 0)
                    for u in UNITS):
                fail = "alt_decode: %r parsed to %r, spelled %r" % (
                    alt, comps(a), exp)
    except Exception as e:      # noqa: BLE001
        fail = "exception: %r raised %s: %s" % (
            {k: v for k, v in case.items() if k != "_history"},
            type(e).__name__, e)
    return Outcome(fail=fail, nontrivial=nontrivial, classes=classes)


def _short_decimal(draw):
    nd = draw(st.integers(1, 6))
    k = draw(st.integers(1, 10 ** nd - 1))
    return "%0*d" % (nd, k)


@st.composite
def st_obj(draw):
    if draw(st.integers(0, 7)) == 0:
        w = draw(st.one_of(st.integers(-10 ** 6, 10 ** 6),
                           st.integers(-10 ** 20, 10 ** 20),
                           st.sampled_from([0, 1, -1, 52, -53, 2 ** 53 + 1])))
        if abs(w) <= 10 ** 9 and draw(st.integers(0, 3)) == 0:
            w = float(w)        # a whole number held in a float is accepted
        return {"kind": "obj", "d": {"weeks": w}}
    sign = draw(st.sampled_from([1, 1, -1]))
    kw = {}
    for u in UNITS:
        k = draw(st.integers(0, 3))
        if k == 0:
            continue
        if k == 1:
            kw[u] = 0 if u in UNITS[:3] else draw(st.sampled_from([0, 0.0]))
            continue
        if u in UNITS[:3]:
            v = draw(st.one_of(st.integers(1, 400), st.integers(1, 10 ** 9),
                               st.sampled_from([1, 12, 30, 365])))
            if u != "days" and draw(st.integers(0, 5)) == 0:
                # years / months are compared as exact integers: any size
                v = draw(st.one_of(st.integers(2 ** 53, 10 ** 20),
                                   st.sampled_from([2 ** 53 + 1])))
            elif v < 2 ** 53 and draw(st.integers(0, 5)) == 0:
                v = float(v)    # a whole number held in a float is accepted
        else:
            how = draw(st.integers(0, 5))
            if how <= 1:
                v = draw(st.one_of(st.integers(1, 100), st.integers(1, 10 ** 9)))
            elif how == 2:
                v = float(draw(st.integers(1, 10 ** 6)))
            elif how <= 4:
                v = float("%d.%s" % (draw(st.integers(0, 10 ** 4)),
                                     _short_decimal(draw)))
            else:
                v = draw(st.floats(min_value=1e-300, max_value=1e300,
                                   allow_nan=False, allow_infinity=False))
        kw[u] = v * sign
    return {"kind": "obj", "d": kw}


def _num(draw, unit, allow_dec):
    """(text, value) for one designator component."""
    n = draw(st.one_of(st.integers(0, 99), st.integers(0, 10 ** 7),
                       st.sampled_from([0, 1, 60, 24, 12])))
    if unit in UNITS[:2] and draw(st.integers(0, 7)) == 0:
        n = draw(st.one_of(st.integers(2 ** 53, 10 ** 20),
                           st.sampled_from([2 ** 53 + 1, 10 ** 17 + 1])))
    width = draw(st.sampled_from([0, 0, 0, 2, 4]))
    t = "%0*d" % (width, n)
    if allow_dec and draw(st.booleans()):
        frac = _short_decimal(draw)
        sep = draw(st.sampled_from([",", "."]))
        return t + sep + frac, float("%d.%s" % (n, frac))
    if unit in UNITS[3:]:
        return t, float(n)
    return t, n


@st.composite
def st_text(draw):
    neg = draw(st.sampled_from([False, False, True]))
    sg = -1 if neg else 1
    pre = "-" if neg else ""
    if draw(st.integers(0, 7)) == 0:
        n = draw(st.one_of(st.integers(1, 10 ** 6), st.integers(1, 10 ** 20),
                           st.sampled_from([1, 52, 53, 2 ** 53 + 1])))
        return {"kind": "text", "text": "%sP%dW" % (pre, n),
                "expect": {"weeks": sg * n}}
    units = draw(st.lists(st.sampled_from(UNITS), min_size=1, max_size=6,
                          unique=True))
    units = [u for u in UNITS if u in units]
    last_time = [u for u in units if u in UNITS[3:]]
    last_time = last_time[-1] if last_time else None
    text = pre + "P"
    exp = {}
    seen_t = False
    for u in units:
        if u in UNITS[3:] and not seen_t:
            text += "T"
            seen_t = True
        t, v = _num(draw, u, allow_dec=(u == last_time))
        text += t + {"years": "Y", "months": "M", "days": "D", "hours": "H",
                     "minutes": "M", "seconds": "S"}[u]
        exp[u] = sg * v
    return {"kind": "text", "text": text, "expect": exp}


@st.composite
def st_alt(draw):
    y = draw(st.one_of(st.integers(0, 9999), st.sampled_from([0, 1, 9999])))
    ordinal = draw(st.sampled_from([False, False, True]))
    ext = draw(st.booleans())
    with_time = draw(st.sampled_from([True, True, True, False]))
    exp = {"years": y}
    if ordinal:
        doy = draw(st.one_of(st.integers(0, 365), st.sampled_from([0, 1, 365])))
        date = "%04d%s%03d" % (y, "-" if ext else "", doy)
        exp["days"] = doy
    else:
        mo = draw(st.integers(0, 12))
        dd = draw(st.one_of(st.integers(0, 30), st.sampled_from([0, 30])))
        sep = "-" if ext else ""
        date = "%04d%s%02d%s%02d" % (y, sep, mo, sep, dd)
        exp["months"], exp["days"] = mo, dd
    alt = "P" + date
    shape = "alt/%s/%s/%s" % ("ordinal" if ordinal else "calendar",
                              "extended" if ext else "basic",
                              "datetime" if with_time else "date")
    frac = None
    if with_time:
        h = draw(st.one_of(st.integers(0, 24), st.sampled_from([0, 24])))
        mi = draw(st.one_of(st.integers(0, 60), st.sampled_from([0, 60])))
        s = draw(st.one_of(st.integers(0, 60), st.sampled_from([0, 60])))
        sep = ":" if ext else ""
        tshape = draw(st.sampled_from(["hms", "hms", "hms", "hm", "h"]))
        exp["hours"], exp["minutes"], exp["seconds"] = h, 0, 0
        if tshape == "hms":
            alt += "T%02d%s%02d%s%02d" % (h, sep, mi, sep, s)
            exp["minutes"], exp["seconds"] = mi, s
        elif tshape == "hm":
            alt += "T%02d%s%02d" % (h, sep, mi)
            exp["minutes"] = mi
            shape += "/hhmm"
        else:
            alt += "T%02d" % h
            shape += "/hh"
        if draw(st.sampled_from([False, False, True])):
            # the decimal fraction sits on the last unit spelled
            frac = _short_decimal(draw)
            alt += draw(st.sampled_from([",", "."])) + frac
            shape += "/decimal"
            unit = {"hms": "seconds", "hm": "minutes", "h": "hours"}[tshape]
            exp[unit] = float("%d.%s" % (exp[unit], frac))
        dec_unit = {"hms": "seconds", "hm": "minutes", "h": "hours"}[tshape]
    if not with_time and not ordinal and draw(st.integers(0, 3)) == 0:
        # reduced date-only spellings (year-month, year): accepted by the
        # library, so they must denote their designator spelling too
        if draw(st.booleans()):
            alt = "P%04d-%02d" % (y, exp["months"])
            exp["days"] = 0
            shape = "alt/calendar/reduced/year-month"
        else:
            alt = "P%04d" % y
            exp["months"] = exp["days"] = 0
            shape = "alt/calendar/reduced/year"
    desig = "P%dY%dM%dD" % (exp["years"], exp.get("months", 0), exp["days"])
    if with_time:
        def num(u):
            if frac and u == dec_unit:
                return "%d,%s" % (int(exp[u]), frac)
            return "%d" % exp[u]
        desig += "T%sH%sM%sS" % (num("hours"), num("minutes"), num("seconds"))
    return {"kind": "alt", "alt": alt, "desig": desig, "expect": exp,
            "shape": shape}


def run_shard(ctx):
    quick = ctx.tier == "quick"
    n = 1500 if quick else 40000
    ctx.hyp(st_obj(), check_case, n)
    ctx.hyp(st_text(), check_case, n, seed_salt=1)
    ctx.hyp(st_alt(), check_case, n // 2, seed_salt=2)
