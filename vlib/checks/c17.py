"""C17 - strftime matches POSIX, strptime inverts it."""
import datetime
from fractions import Fraction

from hypothesis import strategies as st

from vlib import gen as G
from vlib import model as M
from vlib import refcal as R
from vlib.runner import Outcome
from vlib.checks.c06 import fake_system_zone, expected_local
from vlib.checks.c02 import QUARTER_TZ

PID = "C17"
RULE = (
    "kind 'render': (mode, TimePoint kwargs with stored and civil year in "
    "0000-9999, any representation/offset, whole seconds or dyadic decimals, "
    "format string from a grammar over %Y %m %d %j %H %M %S %F %X %z %s and "
    "literal text): TimePoint.strftime and TimePointDumper.strftime must "
    "equal a hand-written POSIX reference evaluated on vlib.refcal civil "
    "fields (cross-checked against datetime.strftime for Gregorian years >= "
    "1000, |offset| < 24 h, no %s). kind 'invert': formats that determine "
    "date (%Y%m%d in any order / %F / %Y %j), time (%H %M %S / %X) and zone "
    "(%z) once each, or %s alone or next to up to three other directives: "
    "strptime(strftime(p, f), f) must have p's "
    "instant (and offset unless %s). kind 'partial': formats with "
    "lower-order parts, the zone or (one case in six) the year itself omitted "
    "default to the start of the period (year 0000)"
    " / the parser's assumed or (faked) local zone. kind 'refuse': any other "
    "%-word directive raises StrftimeSyntaxError from strftime and strptime. "
    "Non-trivial = non-calendar representation, civil year != stored year, "
    "non-zero-minute or negative offset, or instant before 1970; distinct by "
    "case digest.")
ASSUMPTIONS = [
    "POSIX semantics as written in this module (%Y zero-padded to 4, %j to 3,"
    " %z = +-hhmm, %s = whole seconds from 1970-01-01T00:00:00Z of the mode's "
    "calendar)",
    "literal text contains no '%'; literals next to %s are non-digits",
    "glibc does not zero-pad %Y, so datetime is an oracle only for years >= "
    "1000",
]

SUPPORTED = "YmdjHMSFXzs"


def civil(cm, kw):
    """Reference civil fields of the point (local date/time as written)."""
    dn = M.kw_dn(cm, kw)
    sod = M.kw_sod(kw)
    if sod >= 86400:        # 24:00 is printed as written by the library
        pass
    y, mo, d = R.cal_from_dn(cm, dn)
    doy = R.ord_from_dn(cm, dn)[1]
    s = int(sod)            # floor of the second of day
    return {"Y": y, "m": mo, "d": d, "j": doy, "H": s // 3600,
            "M": s % 3600 // 60, "S": s % 60}


def posix(cm, kw, fmt):
    c = civil(cm, kw)
    h, m = kw["time_zone_hour"], kw["time_zone_minute"]
    inst = M.kw_instant(cm, kw) - Fraction(R.UNIX_EPOCH_DN[cm]) * 86400
    unix = inst.numerator // inst.denominator
    if inst < 0 and inst.denominator != 1:
        unix += 1           # the library truncates (int()); accept that form
    out = []
    i = 0
    while i < len(fmt):
        ch = fmt[i]
        if ch == "%" and i + 1 < len(fmt):
            k = fmt[i + 1]
            i += 2
            if k == "Y":
                out.append("%04d" % c["Y"])
            elif k in "mdHMS":
                out.append("%02d" % c[k])
            elif k == "j":
                out.append("%03d" % c["j"])
            elif k == "F":
                out.append("%04d-%02d-%02d" % (c["Y"], c["m"], c["d"]))
            elif k == "X":
                out.append("%02d:%02d:%02d" % (c["H"], c["M"], c["S"]))
            elif k == "z":
                out.append("%s%02d%02d" % ("-" if (h < 0 or m < 0) else "+",
                                           abs(h), abs(m)))
            elif k == "s":
                out.append(str(unix))
            else:
                raise KeyError(k)
        else:
            out.append(ch)
            i += 1
    return "".join(out)


def check_case(case):
    mode, kind = case["mode"], case["kind"]
    cm = R.canon(mode)
    classes = ["kind/" + kind, "mode/" + cm]
    fail = None
    nontrivial = False
    with M.use_mode(mode):
        try:
            from metomi.isodatetime import parsers, dumpers
            from metomi.isodatetime.exceptions import StrftimeSyntaxError
            if kind == "refuse":
                fmt = case["fmt"]
                p = M.make_point(case["p"])
                for what, fn in (
                        ("strftime", lambda: p.strftime(fmt)),
                        ("dumper.strftime",
                         lambda: dumpers.TimePointDumper().strftime(p, fmt)),
                        ("strptime",
                         lambda: parsers.TimePointParser().strptime("2000", fmt))):
                    try:
                        got = fn()
                        fail = "not_refused: %s with %r returned %r" % (
                            what, fmt, M.sp(got))
                        break
                    except StrftimeSyntaxError:
                        pass
                return Outcome(fail=fail, nontrivial=True, classes=classes)
            kw, fmt = case["p"], case["fmt"]
            p = M.make_point(kw)
            rep = M.kw_rep(kw)
            civ = civil(cm, kw)
            inst = M.kw_instant(cm, kw)
            epoch = Fraction(R.UNIX_EPOCH_DN[cm]) * 86400
            nontrivial = (rep != "c" or civ["Y"] != kw["year"] or
                          kw["time_zone_minute"] != 0 or kw["time_zone_hour"] < 0
                          or inst < epoch)
            classes += ["rep/" + rep, "form/" + M.kw_form(kw)]
            if civ["Y"] != kw["year"]:
                classes.append("civil_year!=stored_year")
            if inst < epoch:
                classes.append("before_1970")
            for k in SUPPORTED:
                if "%" + k in fmt:
                    classes.append("directive/%" + k)
            if kind == "render":
                exp = posix(cm, kw, fmt)
                got1 = p.strftime(fmt)
                got2 = dumpers.TimePointDumper(
                    num_expanded_year_digits=kw["num_expanded_year_digits"]
                ).strftime(p, fmt)
                if got1 != exp or got2 != exp:
                    fail = ("render: mode %s %s .strftime(%r) = %r (dumper: %r)"
                            ", POSIX gives %r" % (mode, M.fmt_kw(kw), fmt, got1,
                                                  got2, exp))
                elif case.get("alt"):
                    # the same instant in another offset / representation,
                    # formatted right after with the same format string
                    akw = case["alt"]
                    aexp = posix(cm, akw, fmt)
                    agot = M.make_point(akw).strftime(fmt)
                    classes.append("same_instant_other_spelling")
                    if agot != aexp:
                        fail = ("render_alt: mode %s %s .strftime(%r) = %r, "
                                "POSIX gives %r (formatted right after the same"
                                " instant written as %s)" % (
                                    mode, M.fmt_kw(akw), fmt, agot, aexp,
                                    M.fmt_kw(kw)))
                elif (cm == "gregorian" and civ["Y"] >= 1000 and "%s" not in fmt
                      and abs(M.kw_tz(kw)) < 86400 and kw.get("hour_of_day") != 24):
                    dt = datetime.datetime(
                        civ["Y"], civ["m"], civ["d"], civ["H"], civ["M"], civ["S"],
                        tzinfo=datetime.timezone(datetime.timedelta(
                            seconds=M.kw_tz(kw))))
                    ref2 = dt.strftime(fmt)
                    classes.append("datetime_crosscheck")
                    if ref2 != exp:
                        fail = ("reference_disagrees: our POSIX reference gives"
                                " %r, datetime.strftime %r for %r" % (
                                    exp, ref2, fmt))
            else:
                cfg = case["cfg"]
                parser = parsers.TimePointParser(
                    assumed_time_zone=tuple(cfg["assumed"])
                    if cfg["assumed"] is not None else None)
                with fake_system_zone(tuple(cfg["sys"])):
                    text = p.strftime(fmt)
                    q = parser.strptime(text, fmt)
                    local = expected_local(tuple(cfg["sys"]))
                nq = M.Native(cm, q, allow24=True)
                if nq.problems:
                    fail = "invert_valid: %r / %r -> %r: %s" % (
                        text, fmt, nq.f, nq.problems)
                elif kind == "invert":
                    if nq.instant != Fraction(int(inst // 1)) and \
                            nq.instant != inst:
                        fail = ("invert_instant: mode %s %s -> %r with %r -> %s"
                                ", off by %s s" % (mode, M.fmt_kw(kw), text, fmt,
                                                   M.sp(q),
                                                   float(nq.instant - inst)))
                    elif "%s" not in fmt and (nq.tzh, nq.tzm) != (
                            kw["time_zone_hour"], kw["time_zone_minute"]):
                        fail = "invert_offset: %r with %r -> zone (%r,%r)" % (
                            text, fmt, nq.tzh, nq.tzm)
                    elif "%s" not in fmt and inst.denominator == 1 and \
                            not (q == p):
                        fail = "invert_equal: %r with %r -> %s != original" % (
                            text, fmt, M.sp(q))
                else:
                    # partial: expected fields from what the format spells
                    ez = ((kw["time_zone_hour"], kw["time_zone_minute"])
                          if "%z" in fmt else tuple(cfg["assumed"])
                          if cfg["assumed"] is not None else local)
                    has = lambda k: ("%" + k) in fmt    # noqa: E731
                    # a format that does not name the year at all starts at
                    # the first year of the range
                    y = civ["Y"] if (has("Y") or has("F")) else 0
                    if has("j"):
                        edate = ("o", (y, civ["j"]))
                    else:
                        mo = civ["m"] if (has("m") or has("F")) else 1
                        dd = civ["d"] if (has("d") or has("F")) else 1
                        edate = ("c", (y, mo, dd))
                    eh = civ["H"] if (has("H") or has("X")) else 0
                    em = civ["M"] if (has("M") or has("X")) else 0
                    es = civ["S"] if (has("S") or has("X")) else 0
                    got = ((nq.rep, nq.date), nq.h, nq.m, nq.s, (nq.tzh, nq.tzm))
                    exp = (edate, eh, em, es, ez)
                    if got != exp:
                        fail = ("partial: mode %s %r parsed with %r under %r ->"
                                " %r, expected %r" % (mode, text, fmt, cfg, got,
                                                      exp))
        except Exception as e:      # noqa: BLE001
            fail = "exception: mode %s %r raised %s: %s" % (
                mode, {k: v for k, v in case.items() if k != "_history"},
                type(e).__name__, e)
    return Outcome(fail=fail, nontrivial=nontrivial, classes=classes)


LITERALS = [" ", "-", ":", "/", "T", "t", ", ", "Z", "year ", " at ", ".", "_",
            "#", "(", ")", "é", "[", "\\", "+", "W", "D"]


@st.composite
def st_point(draw, cm, dyadic_ok=True, years=None):
    years = years if years is not None else st.one_of(
        st.integers(0, 9999), st.integers(1000, 3000),
        st.sampled_from([0, 0, 1, 2, 99, 100, 999, 1000, 1969, 1970, 1971,
                         2000, 2008, 2009, 2015, 2020, 9998, 9999, 9999]))
    dec = dyadic_ok and draw(st.sampled_from([False, False, False, True]))
    if dec:
        kw = draw(G.st_point_kw(cm, years=years, forms=("hms,tt", "hm,nn", "h,ii"),
                                dyadic=True, tz=draw(st.sampled_from(QUARTER_TZ))))
    else:
        kw = draw(G.st_point_kw(cm, years=years, forms=("hms",)))
    civ_y = R.cal_from_dn(cm, M.kw_dn(cm, kw))[0]
    if not (0 <= kw["year"] <= 9999 and 0 <= civ_y <= 9999):
        # week-year or 24:00/offset spill outside 0000-9999: same year, but
        # spelled as a calendar/ordinal date (whose year is the civil year)
        kw = draw(G.st_point_kw(cm, years=st.just(min(max(civ_y, 0), 9999)),
                                forms=("hms",), reps="co"))
    kw["num_expanded_year_digits"] = draw(st.sampled_from([0, 0, 2]))
    return kw


@st.composite
def st_render(draw):
    mode = draw(G.MODE_WEIGHTED)
    cm = R.canon(mode)
    kw = draw(st_point(cm))
    n = draw(st.sampled_from([0, 1, 1, 2, 2, 3, 4, 5, 6]))
    parts = []
    for _ in range(n):
        if draw(st.integers(0, 3)) == 0:
            parts.append(draw(st.sampled_from(LITERALS)))
        k = draw(st.sampled_from(SUPPORTED))
        if k == "s" and parts and parts[-1][-1:].isdigit():
            parts.append(" ")
        if parts and parts[-1] == "%s":
            parts.append(" ")
        parts.append("%" + k)
    if draw(st.booleans()):
        parts.append(draw(st.sampled_from(LITERALS)))
    case = {"kind": "render", "mode": mode, "p": kw, "fmt": "".join(parts)}
    inst = M.kw_instant(cm, kw)
    if inst.denominator == 1 and draw(st.sampled_from([False, True])):
        alt = G.respell(draw, cm, int(inst), allow24=False)
        civ_y = R.cal_from_dn(cm, M.kw_dn(cm, alt))[0]
        if 0 <= alt["year"] <= 9999 and 0 <= civ_y <= 9999:
            alt["num_expanded_year_digits"] = kw["num_expanded_year_digits"]
            case["alt"] = alt
    return case


def _sep(draw):
    return draw(st.sampled_from(["", "", "-", " ", "/", ":", "T", ", ", "x"]))


@st.composite
def st_invert(draw, partial=False):
    mode = draw(G.MODE_WEIGHTED)
    cm = R.canon(mode)
    cfg = {"assumed": list(draw(G.st_tz())) if draw(st.booleans()) else None,
           "sys": [draw(st.sampled_from([0, 60, -300, 330, -210, -30])),
                   draw(st.sampled_from([0, 60, -240, 390, -150, -40])),
                   draw(st.sampled_from([0, 1])), draw(st.sampled_from([0, 1, -1]))]}
    if not partial and draw(st.integers(0, 5)) == 0:
        # %s alone: the library walks day by day from 1970
        kw = draw(st_point(cm, dyadic_ok=False, years=st.one_of(
            st.integers(1200, 2800), st.sampled_from([1969, 1970, 0, 1, 9999]))))
        if draw(st.integers(0, 5)) == 0:
            # on and next to the epoch itself: the Unix time texts 0, 1, -1...
            n = draw(st.sampled_from([0, 0, 1, -1, 9, -10, 59, -60]))
            kw = G.respell(draw, cm, R.UNIX_EPOCH_DN[cm] * 86400 + n,
                           allow24=False)
        fmt = draw(st.sampled_from(["%s", "%s", "@%s", "%s s", "t=%s;"]))
        if draw(st.booleans()):
            # %s next to other directives of the same point: the format still
            # determines the instant
            extra = draw(st.lists(st.sampled_from(
                ["%z", "%z", "%Y", "%m", "%d", "%j", "%H", "%M", "%S", "%F",
                 "%X"]), min_size=1, max_size=3, unique=True))
            # no field spelled twice (the parse regex cannot repeat a group)
            if "%F" in extra:
                extra = [x for x in extra if x not in ("%Y", "%m", "%d")]
            if "%X" in extra:
                extra = [x for x in extra if x not in ("%H", "%M", "%S")]
            pieces = list(draw(st.permutations(extra + ["%s"])))
            fmt = pieces[0]
            for x in pieces[1:]:
                fmt += draw(st.sampled_from([" ", "_", " | ", "T"])) + x
        return {"kind": "invert", "mode": mode, "p": kw, "fmt": fmt, "cfg": cfg}
    kw = draw(st_point(cm, dyadic_ok=False))
    date = draw(st.sampled_from(["ymd", "ymd", "F", "Yj"]))
    yearless = partial and draw(st.integers(0, 5)) == 0
    if yearless:
        # no year directive at all: month and day, day of the year, the day
        # alone, or no date part
        dpart = draw(st.sampled_from(["%m" + _sep(draw) + "%d", "%j", "%d", "",
                                      "%m"]))
    elif date == "ymd":
        order = draw(st.permutations(["%Y", "%m", "%d"]))
        if partial:
            keep = draw(st.sampled_from([1, 2, 3]))
            order = [x for x in ["%Y", "%m", "%d"][:keep]]
        s1, s2 = _sep(draw), _sep(draw)
        dpart = (order[0] + s1 + order[1] + s2 + order[2]) if len(order) == 3 \
            else s1.join(order)
    elif date == "F":
        dpart = "%F"
    else:
        dpart = "%Y" + _sep(draw) + "%j"
    tkind = draw(st.sampled_from(["HMS", "HMS", "X"]))
    if tkind == "X":
        tparts = ["%X"]
    else:
        tparts = ["%H", "%M", "%S"]
        if not partial:
            tparts = list(draw(st.permutations(tparts)))
    if partial:
        if tkind == "X":
            tparts = tparts if draw(st.booleans()) else []
        else:
            # any subset of the time directives (e.g. %H %S without %M)
            mask = draw(st.integers(0, 7))
            tparts = [t for i, t in enumerate(tparts) if mask >> i & 1]
    s3 = _sep(draw)
    tpart = s3.join(tparts)
    zone = "%z"
    if partial and draw(st.booleans()):
        zone = ""
    pieces = [x for x in (dpart, tpart, zone) if x] or ["%H"]
    if not partial:
        pieces = list(draw(st.permutations(pieces)))
    fmt = pieces[0]
    for x in pieces[1:]:
        fmt += draw(st.sampled_from([" ", "T", "_", " | ", ""])) + x
    if draw(st.integers(0, 4)) == 0:
        fmt = draw(st.sampled_from(LITERALS)) + fmt
    return {"kind": "partial" if partial else "invert", "mode": mode, "p": kw,
            "fmt": fmt, "cfg": cfg}


@st.composite
def st_refuse(draw):
    mode = draw(G.MODE_WEIGHTED)
    cm = R.canon(mode)
    kw = draw(st_point(cm, dyadic_ok=False))
    bad = draw(st.one_of(
        st.sampled_from([c for c in
                         "abcefghiklnopqrtuvwxyABCDEGIJKLNOPQRTUVWZ0123456789_"]),
        st.sampled_from(["é", "ß", "Ω", "٣", "ж"])))
    pre = draw(st.sampled_from(["", "", "%Y-", "x", "%H:"]))
    post = draw(st.sampled_from(["", "", "-%m", " ", "%S"]))
    return {"kind": "refuse", "mode": mode, "p": kw, "fmt": pre + "%" + bad + post}


def run_shard(ctx):
    quick = ctx.tier == "quick"
    n = 1200 if quick else 30000
    # the four kinds are interleaved in one stream: the directive tables are
    # process-wide, so a parse must not change what a later render produces
    # (a failure that needs the earlier cases is replayed with them)
    ctx.hyp(st.one_of(st_render(), st_render(), st_render(), st_render(),
                      st_render(), st_render(), st_invert(), st_invert(),
                      st_invert(), st_invert(partial=True),
                      st_invert(partial=True), st_refuse()),
            check_case, 2 * n)
