"""C12 - a recurrence iterates exactly the series it denotes."""
import itertools

from hypothesis import strategies as st

from vlib import gen as G
from vlib import model as M
from vlib import recs as RC
from vlib import refcal as R
from vlib.runner import Outcome

PID = "C12"
RULE = (
    "case = (mode, recurrence spec): notation start/second-point, "
    "start/duration or duration/end; bounded n in 1..40 or unbounded; anchor "
    "in any representation/offset (24:00 with exact intervals); interval "
    "exact of any size, nominal (months/years alone or mixed with exact "
    "units) or zero; built through the constructor or through a "
    "long-lived TimeRecurrenceParser from text rendered by our own encoder "
    "(a third of the parsed cases first push the same text through the same "
    "parser under another calendar mode). Oracle: the "
    "series stepped point by point on vlib.refcal (C05 semantics): order, "
    "instants, exactly n points for bounded series incl. the given anchor, "
    "strict monotonicity, consecutive points differ by the interval (library "
    "addition too), n == 1 or zero interval yields exactly the anchor, and "
    "for exact finite series the three notations are == and iterate "
    "identically. Non-trivial = n >= 2 and the series crosses a month or "
    "year boundary, or a nominal interval starting within 3 days of a month "
    "end; distinct by case digest.")
ASSUMPTIONS = [
    "reference calendar vlib/refcal.py and the C05 reference for one "
    "month/year step",
    "whole-second anchors and intervals",
    "known finding F1 (bounded series with nominal intervals derive the far "
    "anchor by one multiplied addition) is excluded only where the observed "
    "series equals the executable defect model exactly",
]
KMAX = 45


def instants(cm, pts):
    out = []
    for p in pts:
        n = M.Native(cm, p, allow24=True)
        if n.problems:
            raise ValueError("invalid point %s: %s" % (M.sp(p), n.problems))
        out.append(n.instant)
    return out


def check_case(case):
    mode, spec = case["mode"], case["spec"]
    cm = R.canon(mode)
    n = spec["reps"]
    d = RC.spec_interval(cm, spec)
    exact = RC.is_exact(d)
    classes = ["fmt/%d" % spec["fmt"], "mode/" + cm, "via/" + spec["via"],
               "reps/" + ("unbounded" if n is None else "1" if n == 1 else
                          "2-5" if n <= 5 else ">5"),
               "interval/" + ("zero" if RC.is_zero(d) else
                              "exact" if exact else "nominal")]
    fail = None
    known = None
    nontrivial = False
    if case.get("premode"):
        # the same text went through the same long-lived parser under another
        # calendar mode first (its result is not judged here)
        with M.use_mode(case["premode"]):
            try:
                RC.build(spec)
            except Exception:       # noqa: BLE001 - e.g. not a date there
                pass
        classes.append("reparsed_after_mode_switch")
    with M.use_mode(mode):
        try:
            r = RC.build(spec)
            want = KMAX if n is None else min(n, KMAX)
            pts = list(itertools.islice(iter(r), want + 2))
            obs = instants(cm, pts)
            exp_kw, total = RC.ref_series(cm, spec, want if n is None else
                                          max(want, 1))
            exp = [M.kw_instant(cm, k) for k in exp_kw]
            m = len(exp)
            if total is not None and total <= KMAX and len(obs) != total:
                fail = ("count: mode %s %s yields %d points, expected exactly "
                        "%d: %s" % (mode, RC.render(spec), len(obs), total,
                                    [M.sp(p) for p in pts[:6]]))
            elif obs[:m] != exp:
                i = next(j for j in range(m) if j >= len(obs) or obs[j] != exp[j])
                fail = ("series: mode %s %s point #%d is %s, expected %s (%s)"
                        % (mode, RC.render(spec), i,
                           M.sp(pts[i]) if i < len(pts) else "missing",
                           RC.render_point(exp_kw[i]), [M.sp(p) for p in pts[:6]]))
            else:
                down = spec["fmt"] == 4 and n is None
                for a, b in zip(obs, obs[1:]):
                    if (a >= b) if not down else (a <= b):
                        fail = "monotonic: mode %s %s is not strictly %s" % (
                            mode, RC.render(spec),
                            "decreasing" if down else "increasing")
                        break
            if fail is None and total is not None and total <= KMAX:
                anchor = spec["start"] if spec["fmt"] != 4 else spec["end"]
                if M.kw_instant(cm, anchor) not in obs:
                    fail = "anchor: mode %s %s does not yield its anchor" % (
                        mode, RC.render(spec))
            if fail is None and len(pts) >= 2 and spec["fmt"] != 1:
                ld = M.make_duration(spec["dur"])
                for a, b in zip(pts, pts[1:]):
                    nxt = (a - ld) if (spec["fmt"] == 4 and n is None) else (a + ld)
                    if not (nxt == b):
                        fail = "step: %s -> %s is not one interval %s" % (
                            M.sp(a), M.sp(b), RC.render_duration(spec["dur"]))
                        break
            if fail is None and exact and n is not None and 2 <= n <= KMAX \
                    and not RC.is_zero(d):
                # the three notations of one finite exact series
                first, second, last = exp_kw[0], exp_kw[1], exp_kw[-1]
                others = [
                    {"fmt": 1, "reps": n, "start": first, "second": second,
                     "via": "ctor"},
                    {"fmt": 3, "reps": n, "start": first, "dur": d, "via": "ctor"},
                    {"fmt": 4, "reps": n, "end": last, "dur": d, "via": "ctor"}]
                for o in others:
                    ro = RC.build(o)
                    if not (ro == r and r == ro) or hash(ro) != hash(r):
                        fail = "notations_equal: mode %s %s != %s" % (
                            mode, RC.render(spec), RC.render(o))
                        break
                    if instants(cm, list(itertools.islice(iter(ro), n + 1))) != obs:
                        fail = "notations_iterate: mode %s %s vs %s" % (
                            mode, RC.render(spec), RC.render(o))
                        break
            if fail and n is not None and n >= 2 and not exact \
                    and spec["fmt"] in (3, 4):
                model = [M.kw_instant(cm, k) for k in RC.f1_model(cm, spec, KMAX)]
                if model == obs and model != exp:
                    known = "F1"
            # non-triviality
            if len(exp_kw) >= 2:
                c0 = R.cal_from_dn(cm, M.kw_dn(cm, exp_kw[0]))
                c1 = R.cal_from_dn(cm, M.kw_dn(cm, exp_kw[-1]))
                crosses = c0[:2] != c1[:2]
                near_end = (not exact and
                            c0[2] >= R.mlens(cm, c0[0])[c0[1] - 1] - 2)
                nontrivial = crosses or near_end
                if crosses:
                    classes.append("crosses_month")
                if c0[0] != c1[0]:
                    classes.append("crosses_year")
                if near_end:
                    classes.append("nominal_near_month_end")
        except Exception as e:      # noqa: BLE001
            fail = "exception: mode %s %s raised %s: %s" % (
                mode, RC.render(spec), type(e).__name__, e)
    return Outcome(fail=fail, nontrivial=nontrivial, classes=classes,
                   known=known)


@st.composite
def st_case(draw):
    mode, spec = draw(RC.st_spec())
    case = {"mode": mode, "spec": spec}
    if spec["via"] == "parse" and draw(st.sampled_from([False, False, True])):
        case["premode"] = draw(st.sampled_from(
            [m for m in R.CANON_MODES if m != R.canon(mode)]))
    return case


def run_shard(ctx):
    quick = ctx.tier == "quick"
    ctx.hyp(st_case(), check_case, 1200 if quick else 30000)
