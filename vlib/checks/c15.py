"""C15 - the active calendar mode alone determines calendar results (stateful)."""
import json
import os
import subprocess
import sys

from hypothesis import strategies as st
from hypothesis.stateful import RuleBasedStateMachine, initialize, rule

from vlib import model as M
from vlib import modeops
from vlib import recs as RC
from vlib import refcal as R
from vlib.runner import Outcome, Violation, Hang, watchdog, VERIF_DIR, REPO

PID = "C15"
RULE = (
    "case = a history (Hypothesis RuleBasedStateMachine, up to 40 steps) of "
    "mode switches over the 7 spellings - through Calendar.set_mode, "
    "DateTimeOperator(calendar_mode=...), the ISODATETIMECALENDAR variable "
    "(and its absence, which resets to gregorian), main(--calendar ...), the "
    "option next to a conflicting environment variable (the option wins) - "
    "interleaved with calendar computations with generated arguments drawn "
    "from a small pool so that the same call recurs under different modes: "
    "the six conversions, year/month/week lengths, year ranges, week-year "
    "starts, iter_months_days, point +- duration, add_months, point - point, "
    "point views, comparison/hash, validation of field tuples, text parsing, "
    "duration ordering, recurrence expansion, Unix time, adding a year-less "
    "day-of-month, CLI calls. Oracle: "
    "(a) every result equals the answer of a worker process that only ever "
    "used the current mode (4 workers per shard, JSON differential); (b) "
    "length queries equal the mode's definition on vlib.refcal; (c) the mode "
    "reported after each switch is the one selected. evaluations = compute "
    "steps; non-trivial = histories containing a call already made in this "
    "process with the same arguments under another mode (the cache-poisoning "
    "shape); distinct by history digest.")
ASSUMPTIONS = [
    "a worker process that set one mode once and never changed it is the "
    "reference for 'a fresh process that only ever used the current mode'",
    "vlib/refcal.py defines the four calendars (twelve 30-day months; 365 "
    "always; 366 always; Gregorian 4/100/400)",
]

ENV = "ISODATETIMECALENDAR"
YEARS = [1999, 2000, 2001, 2003, 2004, 2005, 2019, 2020, 2021, 2024, 2100,
         1900, 0, 0, -1, 4, 1, -4]
CONV = ["get_ordinal_date_from_calendar_date", "get_calendar_date_from_ordinal_date",
        "get_week_date_from_calendar_date", "get_week_date_from_ordinal_date",
        "get_calendar_date_from_week_date", "get_ordinal_date_from_week_date"]
DURS = [{"days": 1}, {"days": 2}, {"days": 365}, {"days": 366}, {"hours": 25},
        {"months": 1}, {"months": 13}, {"years": 1}, {"weeks": 52},
        {"days": -1}, {"days": -366}, {"months": -11}, {"years": -1},
        {"days": 59}, {"days": 60}]


RAW_TEXTS = ["2000-02-30", "2001-02-29", "2000-02-29", "2000-01-31", "2000-366",
             "2001-366", "2001-365", "2000-361", "2000-W53-1", "2004-W53-1",
             "2000-W52-7", "1999-12-31T24:00Z", "20000230T1200Z", "2001060"]


class Workers:
    def __init__(self):
        self.procs = {}

    def ask(self, mode, op):
        p = self.procs.get(mode)
        if p is None or p.poll() is not None:
            env = dict(os.environ, VERIF_REPO=REPO, PYTHONHASHSEED="0")
            env.pop(ENV, None)
            env.pop("ISODATETIMEREF", None)
            p = subprocess.Popen(
                [sys.executable, os.path.join(VERIF_DIR, "vlib", "workers",
                                              "mode_worker.py"), mode],
                stdin=subprocess.PIPE, stdout=subprocess.PIPE, text=True,
                env=env, cwd=VERIF_DIR)
            self.procs[mode] = p
        p.stdin.write(json.dumps(op) + "\n")
        p.stdin.flush()
        import select
        ready, _, _ = select.select([p.stdout], [], [], 180)
        if not ready:
            p.kill()
            self.procs.pop(mode, None)
            raise Hang("the single-mode %s process did not answer %s within "
                       "180 s" % (mode, json.dumps(op)))
        line = p.stdout.readline()
        if not line:
            raise RuntimeError("mode worker %s died" % mode)
        res = json.loads(line)
        if isinstance(res, dict) and "worker_error" in res:
            raise RuntimeError(res["worker_error"])
        return res

    def close(self):
        for p in self.procs.values():
            try:
                p.stdin.close()
                p.wait(timeout=5)
            except Exception:       # noqa: BLE001
                p.kill()
        self.procs = {}


def point_fields(cm, y, frac, rep):
    n = R.ylen(cm, y)
    dn = R.days_before_year(cm, y) + frac % n
    if rep == "c":
        yy, mo, d = R.cal_from_dn(cm, dn)
        return {"year": yy, "month_of_year": mo, "day_of_month": d}
    if rep == "o":
        return {"year": y, "day_of_year": frac % n + 1}
    wy, w, wd = R.week_from_dn(cm, dn)
    return {"year": wy, "week_of_year": w, "day_of_week": wd}


def concretise(cm, spec):
    """Turn an abstract compute spec into a JSON op valid for mode cm."""
    k = spec["k"]
    y, f = spec.get("y", 2000), spec.get("f", 0)
    if k == "conv":
        name = CONV[spec["i"]]
        src = name.split("_from_")[1]
        rep = {"calendar_date": "c", "ordinal_date": "o", "week_date": "w"}[src]
        pf = point_fields(cm, y, f, rep)
        args = [pf["year"]] + [v for kk, v in pf.items() if kk != "year"]
        if rep == "w":
            args = [pf["year"], pf["week_of_year"], pf["day_of_week"]]
        return {"op": "fn", "name": name, "args": args}
    if k == "len":
        name = spec["name"]
        if name == "get_days_in_month":
            return {"op": "fn", "name": name, "args": [f % 12 + 1, y]}
        if name == "get_days_in_year_range":
            return {"op": "fn", "name": name, "args": [y, y + spec["span"]]}
        return {"op": "fn", "name": name, "args": [y]}
    if k == "month_table":
        return {"op": "month_table", "y": y}
    if k == "iter":
        kw = {"in_reverse": True} if spec["rev"] else {}
        args = [y] if not spec["from"] else [y, f % 12 + 1, 1]
        return {"op": "iter_months_days", "args": args, "kw": kw}
    if k == "add":
        return {"op": "add", "p": point_fields(cm, y, f, spec["rep"]),
                "d": DURS[spec["d"]]}
    if k == "add_trunc":
        return {"op": "add_trunc", "p": point_fields(cm, y, f, "c"),
                "dom": spec["dom"]}
    if k == "add_months":
        return {"op": "add_months", "p": point_fields(cm, y, f, spec["rep"]),
                "n": spec["n"]}
    if k == "sub":
        return {"op": "sub", "a": point_fields(cm, y, f, spec["rep"]),
                "b": point_fields(cm, spec["y2"], spec["f2"], spec["rep2"])}
    if k == "views":
        return {"op": "views", "p": point_fields(cm, y, f, spec["rep"])}
    if k == "cmp":
        return {"op": "cmp", "a": point_fields(cm, y, f, spec["rep"]),
                "b": point_fields(cm, spec["y2"], spec["f2"], spec["rep2"])}
    if k == "valid":
        what = spec["what"]
        if what == "c":
            p = {"year": y, "month_of_year": f % 12 + 1,
                 "day_of_month": 28 + spec["x"] % 4}
        elif what == "o":
            p = {"year": y, "day_of_year": 359 + spec["x"] % 8}
        elif what == "m":
            # year-less day of the month / day of the year: the limits are
            # the mode's longest month and longest year
            p = [{"truncated": True, "day_of_month": 28 + spec["x"] % 5},
                 {"truncated": True, "day_of_year": 359 + spec["x"] % 9}][
                     spec["x"] % 2]
        elif what == "t":
            # year-less (truncated) week date: week 53 exists in no year of
            # the 360-day calendar
            p = {"truncated": True, "week_of_year": 51 + spec["x"] % 3,
                 "day_of_week": 1 + spec["x"] % 7}
        else:
            p = {"year": y, "week_of_year": 51 + spec["x"] % 3, "day_of_week": 1}
        return {"op": "valid", "p": p}
    if k == "parse":
        pf = dict(point_fields(cm, y, f, spec["rep"]), time_zone_hour=0,
                  time_zone_minute=0)
        return {"op": "parse", "text": RC.render_point(pf).replace(
            "T00:00:00Z", "")}
    if k == "parse_raw":
        # fixed texts, some of which are dates in one mode and not in another
        return {"op": "parse", "text": RAW_TEXTS[spec["x"] % len(RAW_TEXTS)]}
    if k == "recur":
        pf = dict(point_fields(cm, y, f, spec["rep"]), time_zone_hour=0,
                  time_zone_minute=0)
        text = "R%s/%s/%s" % (spec["n"], RC.render_point(pf),
                              ["P1M", "P1D", "P1Y", "P1W", "P30D"][spec["d"] % 5])
        return {"op": "recur", "text": text, "k": 6}
    if k == "dur_cmp":
        return {"op": "dur_cmp", "a": {"years": 1 + spec["x"] % 2},
                "b": {"days": [360, 361, 365, 366, 367, 720, 730][spec["d"] % 7]}}
    if k == "epoch":
        return {"op": "epoch", "n": [0, 951782400, 946684800, 86400 * 366,
                                     -86400 * 365, 1582934400][spec["x"] % 6]}
    if k == "unix":
        return {"op": "unix", "p": point_fields(cm, y, f, spec["rep"])}
    if k == "cli":
        pf = dict(point_fields(cm, y, f, spec["rep"]), time_zone_hour=0,
                  time_zone_minute=0)
        text = RC.render_point(pf)
        argv = [["--offset=P1D", text], ["--offset=P1M", text],
                ["--offset=-P1Y", text], [text, "2001-01-01T00:00:00Z"],
                ["--max=3", "R/%s/P1M" % text]][spec["x"] % 5]
        return {"op": "cli", "argv": argv}
    raise KeyError(k)


LEN_REF = {
    "get_days_in_year": lambda cm, a: R.ylen(cm, a[0]),
    "get_days_in_month": lambda cm, a: R.mlens(cm, a[1])[a[0] - 1],
    "get_weeks_in_year": lambda cm, a: R.weeks_in_year(cm, a[0]),
    "get_days_in_year_range": lambda cm, a: R.days_in_year_range(cm, a[0], a[1]),
    "get_calendar_date_week_date_start":
        lambda cm, a: list(R.cal_from_dn(cm, R.weekyear_start(cm, a[0]))),
    "get_ordinal_date_week_date_start":
        lambda cm, a: list(R.ord_from_dn(cm, R.weekyear_start(cm, a[0]))),
}


class State:
    """The model: which canonical mode is active."""

    def __init__(self):
        self.mode = "gregorian"
        M.lib().Calendar.default().set_mode("gregorian")
        os.environ.pop(ENV, None)


def do_switch(state, step):
    """Apply a mode switch in-process; returns a failure message or None."""
    from metomi.isodatetime import datetimeoper
    from vlib.checks import c19
    D = M.lib()
    via, sp = step["via"], step["spelling"]
    os.environ.pop(ENV, None)
    expect = R.canon(sp)
    try:
        if via == "api":
            D.Calendar.default().set_mode(sp)
        elif via == "oper":
            datetimeoper.DateTimeOperator(calendar_mode=sp)
        elif via == "oper_env":
            os.environ[ENV] = sp
            datetimeoper.DateTimeOperator()
        elif via == "oper_none":
            datetimeoper.DateTimeOperator()
            expect = "gregorian"
        elif via == "cli":
            c19.run_main(["--calendar", expect, "2000"], {}, [0, 0, 0, 0],
                         reset_mode=None)
        elif via == "cli_env":
            c19.run_main(["2000"], {ENV: sp}, [0, 0, 0, 0], reset_mode=None)
        elif via in ("cli_both", "oper_both"):
            # the option wins over a conflicting environment variable
            # (documented order: --calendar, ISODATETIMECALENDAR, gregorian)
            other = step.get("other") or "360day"
            if via == "cli_both":
                c19.run_main(["--calendar", expect, "2000"], {ENV: other},
                             [0, 0, 0, 0], reset_mode=None)
            else:
                os.environ[ENV] = other
                datetimeoper.DateTimeOperator(calendar_mode=sp)
        elif via == "cli_none":
            c19.run_main(["2000"], {}, [0, 0, 0, 0], reset_mode=None)
            expect = "gregorian"
        else:
            raise KeyError(via)
    finally:
        os.environ.pop(ENV, None)
    state.mode = expect
    got = R.canon(D.Calendar.default().mode or "")
    if got != expect:
        return "mode_selected: after %r the active mode is %r, expected %r" % (
            step, D.Calendar.default().mode, expect)
    return None


def do_compute(state, spec, workers):
    """Run one computation in-process and in the single-mode worker."""
    from vlib.checks import c19
    cm = state.mode
    op = concretise(cm, spec)
    if op["op"] == "cli":
        out, err, code, exc = c19.run_main(
            ["--calendar=" + cm] + op["argv"], {}, [0, 0, 0, 0], reset_mode=None)
        got = [out, None if code is None else str(type(code).__name__),
               None if exc is None else type(exc).__name__]
    else:
        with watchdog(180):
            got = modeops.execute(op)
    got = json.loads(json.dumps(got))
    want = workers.ask(cm, op)
    if got != want:
        return op, ("fresh_process: under mode %s %s -> %r, a process that only"
                    " ever used %s answers %r" % (cm, json.dumps(op), got, cm,
                                                  want))
    if op["op"] in ("add", "add_months") and isinstance(got, str):
        # arithmetic must follow the mode's own month/year lengths
        base = dict(op["p"], hour_of_day=0, minute_of_hour=0, second_of_minute=0,
                    time_zone_hour=0, time_zone_minute=0,
                    num_expanded_year_digits=2)
        d = op["d"] if op["op"] == "add" else {"months": op["n"]}
        if "weeks" in d:
            d = {"days": 7 * d["weeks"]}
        exp_kw = RC.ref_step(cm, base, d, 1)
        y = exp_kw["year"]
        ys = "%s%06d" % ("-" if y < 0 else "+", abs(y))
        want_text = ys + RC.render_point(dict(exp_kw, year=2000))[4:]
        if got != want_text:
            return op, ("definition: mode %s %s -> %s, the mode's calendar "
                        "gives %s" % (cm, json.dumps(op), got, want_text))
    if op["op"] == "month_table":
        y = op["y"]
        ml = list(R.mlens(cm, y))
        ref = [ml, R.ylen(cm, y),
               [[mo, d] for mo in (2, 4, 12) for d in (28, 29, 30, 31)
                if d <= ml[mo - 1]]]
        if got != ref:
            return op, ("definition: mode %s month table of year %d: %r, the "
                        "mode's definition gives %r" % (cm, y, got, ref))
    if op["op"] == "dur_cmp" and isinstance(got, list):
        # a nominal year counts as the mode's common-year length
        want_days = op["a"]["years"] * R.ylen(cm, 2001)
        if got[4] != [want_days, 0] or got[5] != want_days * 86400:
            return op, ("definition: mode %s Duration(years=%d) is roughly %r "
                        "days / %r s, the mode's year has %d days" % (
                            cm, op["a"]["years"], got[4], got[5],
                            R.ylen(cm, 2001)))
    if op["op"] == "valid" and op["p"].get("truncated") and (
            "day_of_month" in op["p"] or "day_of_year" in op["p"]):
        # year-less day of month / year: real iff some month / year of the
        # mode is that long
        if "day_of_month" in op["p"]:
            real = 1 <= op["p"]["day_of_month"] <= max(R.mlens(cm, 2000))
        else:
            real = 1 <= op["p"]["day_of_year"] <= R.ylen(cm, 2000)
        accepted = isinstance(got, str)
        if accepted != real:
            return op, ("definition: mode %s year-less %s was %s, the mode's "
                        "longest month / year makes it %s" % (
                            cm, json.dumps(op["p"]),
                            "accepted" if accepted else "refused (%r)" % (got,),
                            "a real day" if real else "impossible"))
    if op["op"] == "add_trunc" and isinstance(got, str):
        # the next day with that day-of-month, by the mode's month lengths
        base = dict(op["p"], hour_of_day=0, minute_of_hour=0, second_of_minute=0,
                    time_zone_hour=0, time_zone_minute=0)
        dn = M.kw_dn(cm, base)
        while R.cal_from_dn(cm, dn)[2] != op["dom"]:
            dn += 1
        y, mo, d = R.cal_from_dn(cm, dn)
        want_text = "%s%06d-%02d-%02dT00:00:00Z" % (
            "-" if y < 0 else "+", abs(y), mo, d)
        if got != want_text:
            return op, ("definition: mode %s %s + ---%02d -> %s, the mode's "
                        "calendar gives %s" % (cm, json.dumps(op["p"]),
                                               op["dom"], got, want_text))
    if op["op"] == "epoch" and isinstance(got, str):
        # n seconds after 1970-01-01T00:00:00Z counted on the mode's calendar
        n = op["n"]
        dn = R.UNIX_EPOCH_DN[cm] + n // 86400
        y, mo, d = R.cal_from_dn(cm, dn)
        sod = n % 86400
        want_text = "%04d-%02d-%02dT%02d:%02d:%02dZ" % (
            y, mo, d, sod // 3600, sod % 3600 // 60, sod % 60)
        if got != want_text:
            return op, ("definition: mode %s %d s after the epoch -> %s, the "
                        "mode's calendar gives %s" % (cm, n, got, want_text))
    if op["op"] == "unix" and isinstance(got, str):
        base = dict(op["p"], hour_of_day=0, minute_of_hour=0, second_of_minute=0,
                    time_zone_hour=0, time_zone_minute=0)
        want = (M.kw_dn(cm, base) - R.UNIX_EPOCH_DN[cm]) * 86400
        if got != str(want):
            return op, ("definition: mode %s %s is %s s after the epoch, the "
                        "mode's calendar gives %d" % (cm, json.dumps(op["p"]),
                                                      got, want))
    if op["op"] == "fn" and op["name"] in LEN_REF:
        ref = LEN_REF[op["name"]](cm, op["args"])
        if got != ref:
            return op, "definition: mode %s %s(%r) = %r, the calendar " \
                       "definition gives %r" % (cm, op["name"], op["args"], got,
                                                ref)
    return op, None


def check_case(case):
    """Replay a whole history against fresh single-mode workers."""
    workers = Workers()
    state = State()
    fail = None
    n = 0
    try:
        for step in case["history"]:
            if step["do"] == "switch":
                fail = do_switch(state, step)
            else:
                n += 1
                try:
                    _, fail = do_compute(state, step["spec"], workers)
                except Hang as e:
                    fail = "hang: mode %s %r: %s" % (state.mode, step["spec"], e)
            if fail:
                break
    except Exception as e:      # noqa: BLE001
        fail = "exception: history step raised %s: %s" % (type(e).__name__, e)
    finally:
        workers.close()
        M.lib().Calendar.default().set_mode("gregorian")
    return Outcome(fail=fail, nontrivial=True, weight=max(n, 1),
                   classes=["replayed_history"])


SPELL = st.sampled_from(R.MODE_SPELLINGS)
Y = st.sampled_from(YEARS)
Fr = st.one_of(st.integers(0, 400), st.sampled_from([0, 1, 1, 13, 58, 59, 60, 364,
                                                     365]))
REP = st.sampled_from("cow")


def make_machine(ctx, workers, seen):
    class ModeMachine(RuleBasedStateMachine):
        def __init__(self):
            super().__init__()
            self.state = State()
            self.steps = []
            self.ncompute = 0
            self.cross = False
            self.modes = {"gregorian"}
            self.failed = None

        def _compute(self, spec):
            if ctx.shrink_expired():
                return
            step = {"do": "compute", "spec": spec}
            self.steps.append(step)
            self.ncompute += 1
            try:
                op, fail = do_compute(self.state, spec, workers)
            except Hang as e:
                self._fail("hang: mode %s %r: %s" % (self.state.mode, spec, e))
            sig = json.dumps(op, sort_keys=True)
            prev = seen.setdefault(sig, set())
            if prev - {self.state.mode}:
                self.cross = True
            prev.add(self.state.mode)
            ctx.classes["op/" + (op.get("name") or op["op"])] += 1
            if fail:
                self._fail(fail)

        def _fail(self, msg):
            self.failed = msg
            ctx.note_failure({"history": list(self.steps)}, msg)
            raise Violation(msg)

        @rule(spelling=SPELL, via=st.sampled_from(
            ["api", "api", "api", "oper", "oper_env", "oper_none", "cli",
             "cli_env", "cli_none"]))
        def switch(self, spelling, via):
            if ctx.shrink_expired():
                return
            step = {"do": "switch", "via": via, "spelling": spelling}
            self.steps.append(step)
            fail = do_switch(self.state, step)
            self.modes.add(self.state.mode)
            ctx.classes["switch/" + via] += 1
            if fail:
                self._fail(fail)

        @initialize(spelling=SPELL)
        def start_mode(self, spelling):
            self.switch(spelling=spelling, via="api")

        @rule(spelling=SPELL)
        def switch_api(self, spelling):
            self.switch(spelling=spelling, via="api")

        @rule(spelling=SPELL, via=st.sampled_from(["oper", "oper_env", "cli",
                                                   "cli_env"]))
        def switch_other(self, spelling, via):
            self.switch(spelling=spelling, via=via)

        @rule(spelling=SPELL, other=SPELL,
              via=st.sampled_from(["cli_both", "oper_both"]))
        def switch_both(self, spelling, other, via):
            if ctx.shrink_expired():
                return
            step = {"do": "switch", "via": via, "spelling": spelling,
                    "other": other}
            self.steps.append(step)
            fail = do_switch(self.state, step)
            self.modes.add(self.state.mode)
            ctx.classes["switch/" + via] += 1
            if fail:
                self._fail(fail)

        @rule(i=st.integers(0, 5), y=Y, f=Fr)
        def conv(self, i, y, f):
            self._compute({"k": "conv", "i": i, "y": y, "f": f})

        @rule(name=st.sampled_from(sorted(LEN_REF) + ["get_days_since_1_ad"]),
              y=Y, f=Fr, span=st.sampled_from([0, 1, 2, 4, 20, 100, -1]))
        def length(self, name, y, f, span):
            self._compute({"k": "len", "name": name, "y": y, "f": f, "span": span})

        @rule(y=Y)
        def month_table(self, y):
            self._compute({"k": "month_table", "y": y})

        @rule(y=Y, f=Fr, rev=st.booleans(), frm=st.booleans())
        def iter_days(self, y, f, rev, frm):
            self._compute({"k": "iter", "y": y, "f": f, "rev": rev, "from": frm})

        @rule(y=Y, f=Fr, rep=REP, d=st.integers(0, len(DURS) - 1))
        def add(self, y, f, rep, d):
            self._compute({"k": "add", "y": y, "f": f, "rep": rep, "d": d})

        @rule(y=Y, f=st.sampled_from([0, 0, 1, 58, 59, 60, 359, 364, 365]),
              rep=REP, d=st.sampled_from([0, 1, 9, 9, 10, 3, 2, 7, 12, 5, 11]))
        def add_at_year_edge(self, y, f, rep, d):
            # a day, a month, a year (nominal or a year's worth of days) either
            # way from the first / last
            # days of a year and around the end of February: where the carry
            # depends on the mode's year and month lengths
            self._compute({"k": "add", "y": y, "f": f, "rep": rep, "d": d})

        @rule(y=Y, f=st.sampled_from([31, 35, 45, 58, 59, 60, 0, 364]),
              dom=st.sampled_from([28, 29, 29, 30, 1]))
        def add_trunc(self, y, f, dom):
            self._compute({"k": "add_trunc", "y": y, "f": f, "dom": dom})

        @rule(y=st.sampled_from([2000, 2004, 2020, 2024, 0, 4, -4, 1996, 2096]),
              k=st.sampled_from([("c", 59), ("c", 59), ("o", 365), ("c", 30),
                                 ("w", 363)]),
              d=st.sampled_from([7, 12, 6, 11, 5]))
        def leap_day_step(self, y, k, d):
            # 29 February / day 366 / the last week of a leap-numbered year
            # (or 31 January) stepped by whole years or months: clamped by
            # the mode's own month and year lengths
            self._compute({"k": "add", "y": y, "f": k[1], "rep": k[0], "d": d})

        @rule(y=Y, f=Fr, rep=REP, n=st.sampled_from([1, -1, 11, -11, 12, 13, -13]))
        def add_months(self, y, f, rep, n):
            self._compute({"k": "add_months", "y": y, "f": f, "rep": rep, "n": n})

        @rule(y=Y, f=Fr, rep=REP, y2=Y, f2=Fr, rep2=REP,
              k=st.sampled_from(["sub", "sub", "cmp"]))
        def sub_cmp(self, y, f, rep, y2, f2, rep2, k):
            self._compute({"k": k, "y": y, "f": f, "rep": rep, "y2": y2,
                           "f2": f2, "rep2": rep2})

        @rule(y=Y, f=Fr, rep=REP, k=st.sampled_from(["views", "parse", "unix"]))
        def views(self, y, f, rep, k):
            self._compute({"k": k, "y": y, "f": f, "rep": rep})

        @rule(x=st.integers(0, len(RAW_TEXTS) - 1))
        def parse_raw(self, x):
            self._compute({"k": "parse_raw", "x": x})

        @rule(y=Y, f=Fr, what=st.sampled_from("cowtm"), x=st.integers(0, 17))
        def valid(self, y, f, what, x):
            self._compute({"k": "valid", "y": y, "f": f, "what": what, "x": x})

        @rule(y=Y, f=Fr, rep=REP, n=st.sampled_from(["", "3", "5"]),
              d=st.integers(0, 4))
        def recur(self, y, f, rep, n, d):
            self._compute({"k": "recur", "y": y, "f": f, "rep": rep, "n": n,
                           "d": d})

        @rule(x=st.integers(0, 7), d=st.integers(0, 6),
              k=st.sampled_from(["dur_cmp", "epoch"]))
        def misc(self, x, d, k):
            self._compute({"k": k, "x": x, "d": d})

        @rule(y=Y, f=Fr, rep=REP, x=st.integers(0, 4))
        def cli(self, y, f, rep, x):
            self._compute({"k": "cli", "y": y, "f": f, "rep": rep, "x": x})

        def teardown(self):
            M.lib().Calendar.default().set_mode("gregorian")
            os.environ.pop(ENV, None)
            if self.steps and not ctx.shrink_expired():
                case = {"history": self.steps}
                ctx.count(case, Outcome(
                    nontrivial=self.cross and len(self.modes) >= 2,
                    weight=self.ncompute,
                    classes=["history/modes=%d" % len(self.modes)] + (
                        ["history/cross_mode_repeat"] if self.cross else [])))
    return ModeMachine


def run_shard(ctx):
    quick = ctx.tier == "quick"
    workers = Workers()
    seen = {}
    try:
        ctx.machine(make_machine(ctx, workers, seen),
                    max_examples=120 if quick else 1500,
                    steps=30 if quick else 40)
    finally:
        workers.close()
        M.lib().Calendar.default().set_mode("gregorian")
