"""C02 - comparison and hashing of time points follow the timeline."""
from hypothesis import strategies as st

from vlib import gen as G
from vlib import model as M
from vlib import refcal as R
from vlib.runner import Outcome

PID = "C02"
RULE = (
    "case = (mode, 2 or 3 TimePoint kwargs): independent points, same-instant "
    "re-spellings (other representation / UTC offset / 24:00 of the previous "
    "local day / decimal form), and neighbours at +-1 s, 1 min, 1 h, 1 day and "
    "offset-sized distances. Decimals are dyadic (and offsets quarter-hour "
    "when an h,ii form is involved) so equal instants are exact in floats. "
    "Oracle: sign of the exact instant difference (vlib.refcal) decides all six"
    " operators, symmetry, hash equality, transitivity/sort order, set and "
    "dict behaviour and the sign of a - b. Non-trivial = operands differ in "
    "representation, offset or precision form, or denote equal instants; "
    "distinct by case digest.")
ASSUMPTIONS = [
    "reference calendar vlib/refcal.py",
    "truncated points excluded (statement)",
    "decimal fields are dyadic fractions so that equality of instants is "
    "decidable exactly in binary floating point",
]

QUARTER_TZ = [(0, 0), (0, 30), (0, -30), (0, 15), (0, -45), (5, 45), (-5, -45),
              (12, 45), (-3, -30), (1, 0), (-1, 0), (14, 0), (-12, 0),
              (23, 45), (-23, -45), (24, 15), (99, 45), (-99, -45), (9, 30)]


def sign(x):
    return (x > 0) - (x < 0)


def check_case(case):
    mode, kws = case["mode"], case["pts"]
    cm = R.canon(mode)
    inst = [M.kw_instant(cm, kw) for kw in kws]
    forms = [M.kw_form(kw) for kw in kws]
    reps = [M.kw_rep(kw) for kw in kws]
    tzs = [M.kw_tz(kw) for kw in kws]
    classes = ["n/%d" % len(kws), "mode/" + cm]
    equal_pair = len(set(inst)) < len(inst)
    if equal_pair:
        classes.append("equal_instant")
    if "24" in forms:
        classes.append("has_24:00")
    if len({kw["year"] for kw in kws}) > 1:
        classes.append("cross_year")
    if any(f in ("h,ii", "hm,nn", "hms,tt") for f in forms):
        classes.append("decimal")
    nontrivial = (equal_pair or len(set(reps)) > 1 or len(set(tzs)) > 1 or
                  len(set(forms)) > 1)
    fail = None
    with M.use_mode(mode):
        try:
            pts = [M.make_point(kw) for kw in kws]
            for i in range(len(pts)):
                for j in range(len(pts)):
                    if fail:
                        break
                    a, b = pts[i], pts[j]
                    t = sign(inst[i] - inst[j])
                    got = (a < b, a == b, a > b, a <= b, a >= b, a != b)
                    exp = (t < 0, t == 0, t > 0, t <= 0, t >= 0, t != 0)
                    if got != exp:
                        fail = ("operators: mode %s a=%s b=%s (<,==,>,<=,>=,!=)"
                                " = %r, instants say %r" % (
                                    mode, M.fmt_kw(kws[i]), M.fmt_kw(kws[j]),
                                    got, exp))
                    elif t == 0 and hash(a) != hash(b):
                        fail = "hash: mode %s equal instants %s and %s hash " \
                               "differently" % (mode, M.fmt_kw(kws[i]),
                                                M.fmt_kw(kws[j]))
                    elif i != j:
                        d = a - b
                        if sign(M.dur_len(d)) != t:
                            fail = ("sub_sign: mode %s %s - %s = %s but "
                                    "instants differ by %s s" % (
                                        mode, M.fmt_kw(kws[i]),
                                        M.fmt_kw(kws[j]), d,
                                        float(inst[i] - inst[j])))
                        elif t == 0 and {a: 1}.get(b) != 1:
                            fail = "dict_lookup: %s not found by %s" % (
                                M.fmt_kw(kws[i]), M.fmt_kw(kws[j]))
            if fail is None:
                order = sorted(range(len(pts)), key=lambda k: pts[k])
                so = [inst[k] for k in order]
                if so != sorted(inst):
                    fail = "sorted: mode %s %r sorts as %r" % (
                        mode, [M.fmt_kw(k) for k in kws], order)
                elif len(set(pts)) != len(set(inst)):
                    fail = "set_size: mode %s %r has %d distinct instants but" \
                           " the set has %d members" % (
                               mode, [M.fmt_kw(k) for k in kws],
                               len(set(inst)), len(set(pts)))
        except Exception as e:      # noqa: BLE001
            fail = "exception: mode %s %r raised %s: %s" % (
                mode, [M.fmt_kw(k) for k in kws], type(e).__name__, e)
    return Outcome(fail=fail, nontrivial=nontrivial, classes=classes)


DELTAS = [0, 0, 0, 1, -1, 60, -60, 3600, -3600, 86400, -86400, 1800, -1800,
          86399, -86399, 7 * 86400, -7 * 86400, 365 * 86400, -366 * 86400]


@st.composite
def st_case(draw):
    mode = draw(G.MODE_WEIGHTED)
    cm = R.canon(mode)
    n = draw(st.sampled_from([2, 2, 2, 3]))
    dec = draw(st.sampled_from([False, False, True]))
    tzs = st.sampled_from(QUARTER_TZ) if dec else G.st_tz()
    forms = G.ALL_FORMS if dec else G.INT_FORMS
    if draw(st.integers(0, 3)) == 0:
        # near midnight on a month / year / leap-day edge, in an offset that
        # puts the UTC date on the other side of it
        first = draw(G.st_edge_point_kw(cm, forms=forms, dyadic=True,
                                        quarter_tz=dec))
    else:
        first = draw(G.st_point_kw(cm, forms=forms, dyadic=True, tz=draw(tzs)))
    pts = [first]
    if not dec and M.kw_form(first) == "hms" and draw(st.integers(0, 5)) == 0:
        # decimal seconds that are NOT exact binary fractions: re-zoning never
        # touches the seconds field, so equal instants must still compare and
        # hash alike; the other points keep the same second (shifts by whole
        # minutes), so that both sides hold the very same float
        f = draw(st.sampled_from([0.14, 0.36, 0.57, 0.1, 0.3, 0.999, 0.001,
                                  0.07]))
        first["second_of_minute_decimal"] = f
        whole = int(M.kw_instant(cm, dict(first, second_of_minute_decimal=0.0)))
        for _ in range(n - 1):
            delta = 60 * draw(st.sampled_from([0, 0, 0, 1, -1, 60, -60, 1440,
                                               -1440, 30, -30]))
            kw = G.respell(draw, cm, whole + delta, tz=draw(tzs), allow24=False)
            kw["second_of_minute_decimal"] = f
            pts.append(kw)
        if draw(st.booleans()):
            pts.reverse()
        return {"mode": mode, "pts": pts}
    for _ in range(n - 1):
        how = draw(st.sampled_from(["indep", "near", "near", "near"]))
        base = draw(st.sampled_from(pts))
        inst = M.kw_instant(cm, base)
        if how == "indep":
            if draw(st.booleans()):
                # same neighbourhood: same year, free day/time
                y = base["year"]
                pts.append(draw(G.st_point_kw(
                    cm, forms=forms, dyadic=True, tz=draw(tzs),
                    years=st.sampled_from([y - 1, y, y, y + 1]))))
            else:
                pts.append(draw(G.st_point_kw(cm, forms=forms, dyadic=True,
                                              tz=draw(tzs))))
            continue
        delta = draw(st.sampled_from(DELTAS + [M.kw_tz(base), -M.kw_tz(base)]))
        if inst.denominator == 1:
            pts.append(G.respell(draw, cm, int(inst) + delta, tz=draw(tzs)))
        else:
            # decimal base: re-spell the whole-second part and carry the
            # fraction over as decimal seconds (dyadic -> exact)
            whole = inst.numerator // inst.denominator
            frac = inst - whole
            kw = G.respell(draw, cm, whole + delta, tz=draw(tzs), allow24=False)
            kw["second_of_minute_decimal"] = float(frac)
            pts.append(kw)
    if draw(st.booleans()):
        pts.reverse()
    return {"mode": mode, "pts": pts}


def run_shard(ctx):
    quick = ctx.tier == "quick"
    ctx.hyp(st_case(), check_case, 2500 if quick else 70000)
