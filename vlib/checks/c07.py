"""C07 - the parser decodes every documented date-time form to its fields."""
from hypothesis import strategies as st

from vlib import forms as F
from vlib import gen as G
from vlib import model as M
from vlib import refcal as R
from vlib.runner import Outcome
from vlib.checks.c06 import fake_system_zone, expected_local

PID = "C07"
RULE = (
    "kind 'full': a documented date form (hand-copied table: complete or "
    "reduced, basic or extended, calendar/ordinal/week, +-X expanded) x time "
    "form (none, hh, hhmm, hhmmss, decimals with ',' or '.' of 1-9 digits, "
    "24:00) x zone form (none, Z, +-hh, +-hhmm, +-hh:mm), rendered by our own "
    "encoder from generated field values valid in the mode, parsed under a "
    "generated parser configuration (expanded digits 0-4, allow_only_basic, "
    "assumed zone, default_to_unknown_time_zone, faked local zone): the "
    "TimePoint must carry exactly the generated fields, defaults for omitted "
    "fields, the configured zone, and dump_as_parsed must reproduce the text "
    "(up to trailing zeros of a <= 6 digit fraction). kind 'refuse': "
    "extended-only strings under allow_only_basic and basic/extended "
    "date-time mixtures must raise ISO8601SyntaxError. kind 'trunc': with "
    "allow_truncated every truncated date form x {no time, complete/reduced "
    "time} x zones and every time form with no date decode to exactly the "
    "spelled truncated properties (zone unknown unless given) and are "
    "reproduced by dump_as_parsed. Non-trivial = every case (each is a "
    "distinct (form, configuration, values) triple); evaluations counted per "
    "form in 'classes'.")
ASSUMPTIONS = [
    "the form tables in vlib/forms.py are a faithful hand copy of the "
    "documented tables at the pinned commit",
    "negative zero is not generated (-000000 years, -00:00 offsets)",
    "num_expanded_year_digits=0 is used only with non-expanded forms",
    "truncated dates with a two/one-digit year are generated with day, "
    "day-of-year and week values valid in every year of the mode (the library "
    "validates them against the literal two-digit year)",
    "dash-less truncated dates combined with hour-less truncated times are "
    "refused by the library and meaningless in ISO 8601:2000; not generated",
]

_PARSERS = {}


def get_parser(cfg):
    from metomi.isodatetime import parsers
    key = (cfg["xd"], cfg["only_basic"], tuple(cfg["assumed"]) if cfg["assumed"]
           is not None else None, cfg["unknown"], cfg.get("truncated", False),
           cfg.get("pdf"))
    if key not in _PARSERS:
        extra = {}
        if cfg.get("pdf"):
            # a parser-wide default dump format: an explicit dump_as_parsed /
            # dump_format of a parse call takes precedence over it
            extra["dump_format"] = cfg["pdf"]
        _PARSERS[key] = parsers.TimePointParser(
            num_expanded_year_digits=cfg["xd"], allow_only_basic=cfg["only_basic"],
            assumed_time_zone=key[2], default_to_unknown_time_zone=cfg["unknown"],
            allow_truncated=cfg.get("truncated", False), **extra)
    return _PARSERS[key]


def expected_zone(cfg, zone):
    if zone is not None:
        return tuple(zone)
    if cfg["assumed"] is not None:
        return tuple(cfg["assumed"])
    if cfg["unknown"]:
        return (0, 0)
    return expected_local(tuple(cfg["sys"]))


def strip_frac(text, frac):
    """Expected dump_as_parsed text: trailing zeros of the fraction dropped."""
    if frac is None:
        return text
    kept = frac.rstrip("0") or "0"
    i = max(text.rfind(","), text.rfind(".")) + 1
    assert text[i:i + len(frac)] == frac
    return text[:i] + kept + text[i + len(frac):]


def time_expect(tv):
    """(h, m, s) native fields expected from decoded time values."""
    if tv is None:
        return 0, 0, 0
    frac = tv.get("frac")
    h = tv["hour"]
    if "minute" not in tv:
        if frac is not None:
            return h + float("0." + frac), None, None
        return h, 0, 0
    m = tv["minute"]
    if "second" not in tv:
        if frac is not None:
            return h, m + float("0." + frac), None
        return h, m, 0
    s = tv["second"]
    if frac is not None:
        s = s + float("0." + frac)
    return h, m, s


def check_case(case):
    kind = case["kind"]
    mode = case["mode"]
    cm = R.canon(mode)
    cfg = case["cfg"]
    text = case["text"]
    classes = ["kind/" + kind]
    fail = None
    with M.use_mode(mode), fake_system_zone(tuple(cfg["sys"])):
        try:
            from metomi.isodatetime.exceptions import ISO8601SyntaxError
            parser = get_parser(cfg)
            if kind == "refuse":
                classes.append("refuse/" + case["why"])
                try:
                    got = parser.parse(text)
                    fail = "not_refused: %r (%s) was accepted as %s under %r" % (
                        text, case["why"], M.sp(got), cfg)
                except ISO8601SyntaxError:
                    pass
                return Outcome(fail=fail, nontrivial=True, classes=classes)
            dv, tv, zone = case["date"], case["time"], case["zone"]
            classes.append("date/%s/%s" % (case["notation"], case["dexpr"]))
            classes.append("time/%s" % (case["texpr"],))
            classes.append("zone/%s" % (case["zexpr"],))
            classes.append("cfg/xd%d%s%s" % (
                cfg["xd"], "/only_basic" if cfg["only_basic"] else "",
                "/assumed" if cfg["assumed"] is not None else
                "/unknown" if cfg["unknown"] else "/local"))
            tp = parser.parse(text)
            tp2 = parser.parse(text, dump_as_parsed=True)
            frac = tv.get("frac") if tv else None
            if kind == "full":
                n = M.Native(cm, tp, allow24=True)
                rep = case["rep"]
                y = dv["year"]
                if rep == "c":
                    date = (y, dv.get("month", 1), dv.get("day", 1))
                elif rep == "o":
                    date = (y, dv["doy"])
                else:
                    date = (y, dv["week"], dv.get("wday", 1))
                h, m, s = time_expect(tv)
                ez = expected_zone(cfg, zone)
                got = (n.rep, n.date, n.h, n.m, n.s, (n.tzh, n.tzm))
                exp = (rep, date, h, m, s, ez)
                if n.problems:
                    fail = "valid: %r parsed to %r: %s" % (text, n.f, n.problems)
                elif got != exp:
                    fail = "fields: mode %s %r under %r parsed to %r, spelled " \
                           "%r" % (mode, text, cfg, got, exp)
            else:
                props = tp.get_truncated_properties()
                exp = dict(case["props"])
                if tv:
                    hh, mm, ss = None, None, None
                    if "hour" in tv:
                        hh = tv["hour"]
                    if "minute" in tv:
                        mm = tv["minute"]
                    if "second" in tv:
                        ss = tv["second"]
                    if frac is not None:
                        f = float("0." + frac)
                        if ss is not None:
                            ss += f
                        elif mm is not None:
                            mm += f
                        else:
                            hh += f
                    for k, v in (("hour_of_day", hh), ("minute_of_hour", mm),
                                 ("second_of_minute", ss)):
                        if v is not None:
                            exp[k] = v
                tz = tp.time_zone
                if not tp.truncated:
                    fail = "trunc_flag: %r parsed to a non-truncated point %s" \
                           % (text, M.sp(tp))
                elif props != exp:
                    fail = "trunc_props: %r parsed to %r, spelled %r" % (
                        text, props, exp)
                else:
                    # zone: as spelled; else resolved by the configuration -
                    # assumed offset, *unknown* when told to default to
                    # unknown, otherwise the (faked) local offset
                    if zone is not None:
                        ez = (False,) + tuple(zone)
                    elif cfg["assumed"] is not None:
                        ez = (False,) + tuple(cfg["assumed"])
                    elif cfg["unknown"]:
                        ez = (True, 0, 0)
                    else:
                        ez = (False,) + expected_local(tuple(cfg["sys"]))
                    if (bool(tz.unknown), tz.hours, tz.minutes) != ez:
                        fail = ("trunc_zone: %r under %r parsed zone (unknown="
                                "%r, %r, %r), expected %r" % (
                                    text, cfg, tz.unknown, tz.hours, tz.minutes,
                                    ez))
            if fail is None and (frac is None or len(frac) <= 6):
                back = str(tp2)
                want = strip_frac(text, frac)
                if back != want:
                    fail = "dump_as_parsed: %r parsed with dump_as_parsed " \
                           "prints %r (expected %r)" % (text, back, want)
        except Exception as e:      # noqa: BLE001
            fail = "exception: mode %s %r under %r raised %s: %s" % (
                mode, text, cfg, type(e).__name__, e)
    return Outcome(fail=fail, nontrivial=True, classes=classes)


# ---------------------------------------------------------------------------
# generation

SYS = st.tuples(st.sampled_from([0, 60, -300, 330, -210, 765, -30, 345]),
                st.sampled_from([0, 60, -240, 390, -150, 825, -40]),
                st.sampled_from([0, 1]), st.sampled_from([0, 1, -1]))


@st.composite
def st_cfg(draw, truncated=False, pdf=False):
    xd = draw(st.sampled_from([0, 1, 2, 2, 2, 3, 4]))
    zmode = draw(st.sampled_from(["assumed", "assumed", "unknown", "local"]))
    cfg = {"xd": xd, "only_basic": draw(st.sampled_from([False, False, True])),
           "assumed": list(draw(G.st_tz())) if zmode == "assumed" else None,
           "unknown": zmode == "unknown" or (
               zmode == "assumed" and draw(st.booleans())),
           "sys": list(draw(SYS))}
    if truncated:
        cfg["truncated"] = True
    if pdf and draw(st.integers(0, 7)) == 0:
        cfg["pdf"] = draw(st.sampled_from(["CCYYMMDDThhmmZ", "CCYY-DDDThh:mm:ss",
                                           "+XCCYY-Www-DThh+hh"]))
    return cfg


def _frac(draw):
    nd = draw(st.sampled_from([1, 1, 2, 3, 4, 5, 6, 6, 7, 8, 9]))
    k = draw(st.one_of(st.integers(0, 10 ** nd - 1),
                       st.sampled_from([0, 1, 10 ** nd - 1, 5 * 10 ** (nd - 1),
                                        10 ** (nd - 1)])))
    return "%0*d" % (nd, k)


@st.composite
def st_time_values(draw, form):
    toks = form["toks"]
    tv = {}
    has_frac = any(t in (",f", ".f") for t in toks)
    if "hh" in toks:
        tv["hour"] = draw(st.one_of(st.integers(0, 23),
                                    st.sampled_from([0, 23, 12])))
    if "mm" in toks:
        tv["minute"] = draw(st.one_of(st.integers(0, 59), st.sampled_from([0, 59])))
    if "ss" in toks:
        tv["second"] = draw(st.one_of(st.integers(0, 59), st.sampled_from([0, 59])))
    if has_frac:
        tv["frac"] = _frac(draw)
    elif "hh" in toks and draw(st.integers(0, 11)) == 0:
        tv["hour"] = 24
        if "minute" in tv:
            tv["minute"] = 0
        if "second" in tv:
            tv["second"] = 0
    return tv


@st.composite
def st_zone_values(draw, form):
    if form["expr"] == "Z":
        return (0, 0)
    h, m = draw(G.st_tz())
    if "mm" not in form["toks"]:
        m = 0
    if h == 0 and m == 0 and draw(st.booleans()):
        h = draw(st.sampled_from([1, -1, 99, -99, 12]))
    return (h, m)


@st.composite
def st_full(draw, force_basic_cfg=None):
    mode = draw(G.MODE_WEIGHTED)
    cm = R.canon(mode)
    cfg = draw(st_cfg(pdf=True))
    xd = cfg["xd"]
    notation = "basic" if cfg["only_basic"] else draw(
        st.sampled_from(["basic", "extended"]))
    dtype = draw(st.sampled_from(["complete", "complete", "complete", "reduced"]))
    cands = [f for f in F.DATE_FORMS if f["notation"] == notation and
             f["type"] == dtype and (xd > 0 or "X" not in f["toks"])]
    dform = draw(st.sampled_from(cands))
    expanded = "X" in dform["toks"]
    top = 10 ** (4 + xd) - 1 if expanded else 9999
    lo = -top if expanded else 0
    rep = dform["rep"]
    toks = dform["toks"]
    if "YY" not in toks:        # century-only forms
        cc = draw(st.integers(-(-lo // 100), top // 100))
        dv = {"year": cc * 100}
    else:
        ys = st.one_of(st.integers(lo, top), st.integers(max(lo, -12000),
                                                         min(top, 12000)),
                       st.sampled_from([y for y in (
                           lo, top, 0, 1, 4, 100, 400, 1900, 2000, 2004, 2015,
                           2020, 9999, -1, -4, -400, 10000, -10000)
                           if lo <= y <= top]))
        dn = draw(G.st_dn(cm, ys))
        if rep == "c":
            y, mo, d = R.cal_from_dn(cm, dn)
            dv = {"year": y}
            if "MM" in toks:
                dv["month"] = mo
            if "DD" in toks:
                dv["day"] = d
        elif rep == "o":
            y, doy = R.ord_from_dn(cm, dn)
            dv = {"year": y, "doy": doy}
        else:
            wy, w, wd = R.week_from_dn(cm, dn)
            if not lo <= wy <= top:
                wy, w, wd = R.week_from_dn(cm, R.dn_from_cal(cm, 2000, 6, 15))
            dv = {"year": wy, "week": w}
            if "D" in toks:
                dv["wday"] = wd
    text = F.encode_date(dform, dv, xd)
    tform = zform = None
    tv = zone = None
    if dtype == "complete" and draw(st.integers(0, 5)) > 0:
        tform = draw(st.sampled_from(
            [f for f in F.TIME_FORMS if f["notation"] == notation and
             f["type"] in ("complete", "reduced")]))
        tv = draw(st_time_values(tform))
        text += "T" + F.encode_time(tform, tv)
        if draw(st.integers(0, 3)) > 0:
            zform = draw(st.sampled_from(
                [f for f in F.ZONE_FORMS if f["notation"] == notation]))
            zone = draw(st_zone_values(zform))
            text += F.encode_zone(zform, *zone)
    return {"kind": "full", "mode": mode, "cfg": cfg, "text": text,
            "notation": notation, "dexpr": dform["expr"], "rep": rep,
            "texpr": tform["expr"] if tform else "-",
            "zexpr": zform["expr"] if zform else "-",
            "date": dv, "time": tv, "zone": list(zone) if zone else None}


EXT_ONLY_TIME = [f for f in F.TIME_FORMS if f["notation"] == "extended" and
                 ":" in f["toks"] and f["type"] != "truncated"]
BASIC_ONLY_TIME = [f for f in F.TIME_FORMS if f["notation"] == "basic" and
                   "mm" in f["toks"] and f["type"] != "truncated"]
EXT_ONLY_DATE = [f for f in F.DATE_FORMS if f["notation"] == "extended" and
                 f["type"] in ("complete", "reduced") and
                 f["expr"] not in ("CCYY-MM", "+XCCYY-MM")]


@st.composite
def st_refuse(draw):
    """Strings that must be refused with ISO8601SyntaxError."""
    mode = draw(G.MODE_WEIGHTED)
    cm = R.canon(mode)
    cfg = draw(st_cfg())
    why = draw(st.sampled_from(["only_basic/date", "only_basic/time",
                                "only_basic/zone", "mix/basic_date_ext_time",
                                "mix/ext_date_basic_time",
                                "only_basic/zone_truncated",
                                "mix/zone", "mix/zone"]))
    dn = draw(G.st_dn(cm, st.integers(1, 9998)))
    y, mo, d = R.cal_from_dn(cm, dn)
    vals = {"year": y, "month": mo, "day": d, "doy": R.ord_from_dn(cm, dn)[1]}
    wy, w, wd = R.week_from_dn(cm, dn)
    xd = cfg["xd"]

    def enc(form):
        v = dict(vals)
        if form["rep"] == "w":
            v.update(year=wy, week=w, wday=wd)
        return F.encode_date(form, v, xd)

    def plain(forms):
        return [f for f in forms if xd > 0 or "X" not in f["toks"]]
    if why.startswith("only_basic"):
        cfg["only_basic"] = True
    else:
        cfg["only_basic"] = False
    if why == "only_basic/date":
        df = draw(st.sampled_from(plain(EXT_ONLY_DATE)))
        text = enc(df)
        if df["type"] == "complete" and draw(st.booleans()):
            tf = draw(st.sampled_from([f for f in F.TIME_FORMS if
                                       f["notation"] == "extended" and
                                       f["type"] in ("complete", "reduced")]))
            text += "T" + F.encode_time(tf, draw(st_time_values(tf)))
    elif why in ("only_basic/time", "mix/basic_date_ext_time"):
        df = draw(st.sampled_from(plain([f for f in F.DATE_FORMS if
                                         f["notation"] == "basic" and
                                         f["type"] == "complete"])))
        tf = draw(st.sampled_from(EXT_ONLY_TIME))
        text = enc(df) + "T" + F.encode_time(tf, draw(st_time_values(tf)))
        if draw(st.booleans()):
            text += "Z"
    elif why == "mix/zone":
        # a complete date-time in one notation followed by a zone with
        # minutes in the other notation, either sign
        nota = draw(st.sampled_from(["basic", "extended"]))
        other = "extended" if nota == "basic" else "basic"
        df = draw(st.sampled_from(plain([f for f in F.DATE_FORMS if
                                         f["notation"] == nota and
                                         f["type"] == "complete"])))
        tf = draw(st.sampled_from([f for f in F.TIME_FORMS if
                                   f["notation"] == nota and
                                   f["type"] == "complete" and
                                   "ss" in f["toks"]]))
        h, m = draw(G.st_tz())
        if m == 0:
            m = 30 if h >= 0 else -30
        text = (enc(df) + "T" + F.encode_time(tf, draw(st_time_values(tf))) +
                F.encode_zone(F.zone_form(
                    "+hh:mm" if other == "extended" else "+hhmm", other), h, m))
    elif why == "only_basic/zone_truncated":
        # a basic-only parser that also reads truncated forms: a time-only or
        # truncated-date expression with the extended zone form
        cfg["truncated"] = True
        tf = draw(st.sampled_from([f for f in F.TIME_FORMS if
                                   f["notation"] == "basic" and
                                   f["type"] in ("complete", "reduced") and
                                   "mm" in f["toks"]]))
        h, m = draw(G.st_tz())
        if m == 0:
            m = 30 if h >= 0 else -30
        text = draw(st.sampled_from(["", "", "-W-%d" % wd, "---%02d" % d])) + \
            "T" + F.encode_time(tf, draw(st_time_values(tf))) + \
            F.encode_zone(F.zone_form("+hh:mm", "extended"), h, m)
    elif why == "only_basic/zone":
        df = draw(st.sampled_from(plain([f for f in F.DATE_FORMS if
                                         f["notation"] == "basic" and
                                         f["type"] == "complete"])))
        tf = draw(st.sampled_from([f for f in F.TIME_FORMS if
                                   f["notation"] == "basic" and
                                   f["type"] in ("complete", "reduced")]))
        h, m = draw(G.st_tz())
        text = (enc(df) + "T" + F.encode_time(tf, draw(st_time_values(tf))) +
                F.encode_zone(F.zone_form("+hh:mm", "extended"), h, m))
    else:
        df = draw(st.sampled_from(plain([f for f in F.DATE_FORMS if
                                         f["notation"] == "extended" and
                                         f["type"] == "complete"])))
        tf = draw(st.sampled_from(BASIC_ONLY_TIME))
        text = enc(df) + "T" + F.encode_time(tf, draw(st_time_values(tf)))
        if draw(st.booleans()):
            text += "Z"
    return {"kind": "refuse", "mode": mode, "cfg": cfg, "text": text, "why": why}


TRUNC_DATES = [f for f in F.DATE_FORMS if f["type"] == "truncated"]


@st.composite
def st_trunc(draw):
    mode = draw(G.MODE_WEIGHTED)
    cm = R.canon(mode)
    cfg = draw(st_cfg(truncated=True, pdf=True))
    cfg["only_basic"] = False
    dform = None
    props = {}
    text = ""
    notation = None
    with_date = draw(st.integers(0, 3)) > 0
    if with_date:
        dform = draw(st.sampled_from(TRUNC_DATES))
        notation = dform["notation"]
        toks = dform["toks"]
        has_year = "YY" in toks or "z" in toks
        dv = {}
        if "YY" in toks:
            dv["yy"] = draw(st.integers(0, 99))
            props["year_of_century"] = dv["yy"]
        if "z" in toks:
            dv["z"] = draw(st.integers(0, 9))
            props["year_of_decade"] = dv["z"]
        ml = R.mlens(cm, 1999 if has_year else 2000)   # common / leap table
        if cm != "gregorian":
            ml = R.mlens(cm, 2000)
        if "MM" in toks:
            dv["month"] = draw(st.integers(1, 12))
            props["month_of_year"] = dv["month"]
        if "DD" in toks:
            top = ml[dv["month"] - 1] if "month" in dv else max(ml)
            dv["day"] = draw(st.one_of(st.integers(1, top),
                                       st.sampled_from([1, top])))
            props["day_of_month"] = dv["day"]
        if "DDD" in toks:
            top = sum(ml)
            dv["doy"] = draw(st.one_of(st.integers(1, top),
                                       st.sampled_from([1, top, 59, 60])))
            props["day_of_year"] = dv["doy"]
        if "ww" in toks:
            top = ((52 if cm == "360day" else 53) if not has_year else
                   (51 if cm == "360day" else 52))
            dv["week"] = draw(st.one_of(st.integers(1, top),
                                        st.sampled_from([1, top])))
            props["week_of_year"] = dv["week"]
        if "D" in toks:
            dv["wday"] = draw(st.integers(1, 7))
            props["day_of_week"] = dv["wday"]
        text = F.encode_date(dform, dv)
    tform = zform = None
    tv = zone = None
    if not with_date or draw(st.booleans()):
        if with_date:
            # truncated date x {complete, reduced} time of the same notation
            tcands = [f for f in F.TIME_FORMS if f["type"] != "truncated"]
            if dform["expr"][0] == "-" and draw(st.integers(0, 3)) == 0:
                tcands = [f for f in F.TIME_FORMS if f["type"] == "truncated"]
        else:
            tcands = list(F.TIME_FORMS)
        tform = draw(st.sampled_from(tcands))
        tv = draw(st_time_values(tform))
        if tv.get("hour") == 24:
            tv["hour"] = 23
        text += "T" + F.encode_time(tform, tv)
        if draw(st.integers(0, 2)) == 0:
            zform = draw(st.sampled_from(
                [f for f in F.ZONE_FORMS if f["notation"] == tform["notation"]]))
            zone = draw(st_zone_values(zform))
            text += F.encode_zone(zform, *zone)
    return {"kind": "trunc", "mode": mode, "cfg": cfg, "text": text,
            "notation": notation or (tform["notation"] if tform else "-"),
            "dexpr": dform["expr"] if dform else "-",
            "texpr": tform["expr"] if tform else "-",
            "zexpr": zform["expr"] if zform else "-",
            "props": props, "date": None, "time": tv,
            "zone": list(zone) if zone else None}


def run_shard(ctx):
    quick = ctx.tier == "quick"
    n = 1500 if quick else 40000
    ctx.hyp(st_full(), check_case, n)
    ctx.hyp(st_refuse(), check_case, n // 4, seed_salt=1)
    ctx.hyp(st_trunc(), check_case, n // 2, seed_salt=2)
