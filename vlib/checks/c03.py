"""C03 - calendar / ordinal / ISO-week dates are faithful views of one day.

Exhaustive enumeration of every day of chosen years (quick) or of a full
400-year Gregorian cycle plus 28-year blocks of the fixed-length calendars
(thorough), plus Hypothesis-drawn years out to +-999999 and year ranges.
Oracle: vlib.refcal (closed-form day numbers; validated against datetime).
"""
from hypothesis import strategies as st

from vlib import refcal as R
from vlib.runner import Outcome

PID = "C03"
RULE = (
    "case = (mode spelling, year): every day of that year is enumerated and "
    "all six module-level conversions, the TimePoint get_*/to_* methods and "
    "derived field properties, "
    "iter_months_days, week-year starts, year/month/week counts and weekday "
    "continuity into the next year are compared with the closed-form "
    "reference; or case = (mode, start, end) for get_days_in_year_range. "
    "evaluations = days (or ranges) checked; distinct non-trivial = distinct "
    "(canonical mode, year, day-of-year) where the week-year differs from the "
    "calendar year, or the day is a month end, year end or leap day, plus "
    "distinct ranges spanning a century year or start > end.")
ASSUMPTIONS = [
    "reference calendar vlib/refcal.py is correct (self-tested against "
    "datetime.date on 0001-9999 on every run)",
    "weekday anchor: Monday 2000-01-03 in every mode (the library's documented "
    "reference)",
]


def EXHAUSTIVE(tier):
    return True


EXHAUSTIVE_NOTE = (
    "thorough: every day of two full 400-year Gregorian cycles (chosen by the "
    "seed), of 200 years of each fixed-length calendar and of a 28-year block "
    "under each alias spelling is enumerated, with the TimePoint views checked"
    " on every day; quick enumerates every day of one full 400-year Gregorian "
    "cycle (chosen by the seed) and of a 28-year block of each fixed-length "
    "calendar, plus the listed boundary years")

QUICK_GREG_YEARS = sorted(set(
    list(range(-5, 6)) + [-401, -400, -399, -101, -100, -99, 1599, 1600, 1601,
                          1899, 1900, 1901, 1999, 2000, 2001, 2003, 2004,
                          2005, 2008, 2009, 2010, 2012, 2015, 2016, 2020,
                          2024, 2026, 2028, 2032, 2036, 2040, 2044, 2048,
                          2052, 2099, 2100, 2101, 9998, 9999, 10000, 10001,
                          -9999, -10000, 123456, -123456]))
QUICK_FIXED_YEARS = sorted(set(list(range(-4, 5)) + list(range(1996, 2011)) +
                               [9999, 10000, -10000]))


def year_jobs(tier, seed):
    jobs = []
    if tier == "quick":
        base = (-400, 0, 1600, 2000, 9600)[seed % 5]
        for y in sorted(set(range(base, base + 400)) | set(QUICK_GREG_YEARS)):
            jobs.append(("gregorian", y))
        for m in ("360day", "365day", "366day"):
            for y in sorted(set(QUICK_FIXED_YEARS) | set(range(1990, 2018))):
                jobs.append((m, y))
        for m in ("360_day", "365_day", "366_day"):
            for y in (-1, 0, 1999, 2000, 2004, 2005):
                jobs.append((m, y))
    else:
        bases = (-400, 0, 1600, 2000, 9600)
        base = bases[seed % 5]
        base2 = bases[(seed + 2) % 5]
        greg = set(range(base, base + 400)) | set(range(base2, base2 + 400)) | \
            set(QUICK_GREG_YEARS)
        for y in sorted(greg):
            jobs.append(("gregorian", y))
        for m in R.MODE_SPELLINGS[1:]:
            span = range(1900, 2100) if "_" not in m else range(1990, 2018)
            for y in span:
                jobs.append((m, y))
            for y in (-29, -1, 0, 1, 9999, 10000):
                jobs.append((m, y))
    return jobs


ALL_VIEWS = [False]     # thorough: TimePoint views for every day


def _lib():
    from metomi.isodatetime import data
    return data


def check_year(mode, y):
    D = _lib()
    cm = R.canon(mode)
    fails = []
    keys = []
    cal = D.Calendar.default()
    cal.set_mode(mode)
    try:
        n = R.ylen(cm, y)
        ml = R.mlens(cm, y)
        if D.get_days_in_year(y) != n:
            fails.append("days_in_year: get_days_in_year(%d)=%r ref %d" % (
                y, D.get_days_in_year(y), n))
        for mo in range(1, 13):
            got = D.get_days_in_month(mo, y)
            if got != ml[mo - 1]:
                fails.append("days_in_month: (%d,%d)=%r ref %d" % (
                    mo, y, got, ml[mo - 1]))
        wiy = R.weeks_in_year(cm, y)
        if D.get_weeks_in_year(y) != wiy:
            fails.append("weeks_in_year: %d -> %r ref %d" % (
                y, D.get_weeks_in_year(y), wiy))
        ws = R.weekyear_start(cm, y)
        if tuple(D.get_calendar_date_week_date_start(y)) != R.cal_from_dn(cm, ws):
            fails.append("week_start_cal: %d -> %r ref %r" % (
                y, D.get_calendar_date_week_date_start(y), R.cal_from_dn(cm, ws)))
        if tuple(D.get_ordinal_date_week_date_start(y)) != R.ord_from_dn(cm, ws):
            fails.append("week_start_ord: %d -> %r ref %r" % (
                y, D.get_ordinal_date_week_date_start(y), R.ord_from_dn(cm, ws)))
        ref_days = [(mo, d) for mo in range(1, 13)
                    for d in range(1, ml[mo - 1] + 1)]
        if list(D.iter_months_days(y)) != ref_days:
            fails.append("iter_months_days: year %d differs from reference" % y)
        if list(D.iter_months_days(y, in_reverse=True)) != ref_days[::-1]:
            fails.append("iter_months_days_rev: year %d differs" % y)
        dn0 = R.days_before_year(cm, y)
        xd = 2 if not 0 <= y <= 9999 else 0
        prev_wd = None
        for doy in range(1, n + 2):
            if fails:
                break
            if doy == n + 1:
                # first day of the next year: weekday continuity only
                got_w = tuple(D.get_week_date_from_ordinal_date(y + 1, 1))
                if got_w[2] != prev_wd % 7 + 1:
                    fails.append(
                        "weekday_continuity: %d-%03d weekday %d then %d-001 "
                        "weekday %d" % (y, n, prev_wd, y + 1, got_w[2]))
                break
            dn = dn0 + doy - 1
            c = R.cal_from_dn(cm, dn)
            w = R.week_from_dn(cm, dn)
            o = (y, doy)
            got = (
                tuple(D.get_ordinal_date_from_calendar_date(*c)),
                tuple(D.get_calendar_date_from_ordinal_date(*o)),
                tuple(D.get_week_date_from_calendar_date(*c)),
                tuple(D.get_week_date_from_ordinal_date(*o)),
                tuple(D.get_calendar_date_from_week_date(*w)),
                tuple(D.get_ordinal_date_from_week_date(*w)),
            )
            exp = (o, c, w, w, c, o)
            if got != exp:
                names = ("ord_from_cal", "cal_from_ord", "week_from_cal",
                         "week_from_ord", "cal_from_week", "ord_from_week")
                for nm, g, e in zip(names, got, exp):
                    if g != e:
                        fails.append("%s: mode %s day %r/%r/%r -> %r ref %r" % (
                            nm, mode, c, o, w, g, e))
                break
            if prev_wd is not None and w[2] != prev_wd % 7 + 1:
                fails.append("weekday_continuity: inside year %d doy %d" % (
                    y, doy))
            prev_wd = w[2]
            month_end = c[2] == ml[c[1] - 1]
            nontrivial = (w[0] != y or month_end or doy == n or
                          (c[1], c[2]) == (2, 29))
            if nontrivial:
                keys.append("%s/%d/%d" % (cm, y, doy))
            if nontrivial or doy % 5 == 0 or ALL_VIEWS[0]:
                # TimePoint views of the same day, from each representation
                pts = (
                    D.TimePoint(year=c[0], month_of_year=c[1],
                                day_of_month=c[2], num_expanded_year_digits=xd),
                    D.TimePoint(year=y, day_of_year=doy,
                                num_expanded_year_digits=xd),
                    D.TimePoint(year=w[0], week_of_year=w[1], day_of_week=w[2],
                                num_expanded_year_digits=2 if not
                                0 <= w[0] <= 9999 else xd),
                )
                for p in pts:
                    g = (tuple(p.get_calendar_date()),
                         tuple(p.get_ordinal_date()),
                         tuple(p.get_week_date()))
                    if g != (c, o, w):
                        fails.append("timepoint_get: %s -> %r ref %r" % (
                            p, g, (c, o, w)))
                        break
                    # the field properties derive the other views' fields
                    g3 = (p.month_of_year, p.day_of_month, p.day_of_year,
                          p.week_of_year, p.day_of_week)
                    if g3 != (c[1], c[2], o[1], w[1], w[2]):
                        fails.append(
                            "timepoint_properties: %s (month_of_year, "
                            "day_of_month, day_of_year, week_of_year, "
                            "day_of_week) = %r ref %r" % (
                                p, g3, (c[1], c[2], o[1], w[1], w[2])))
                        break
                    pc, po, pw = (p.to_calendar_date(), p.to_ordinal_date(),
                                  p.to_week_date())
                    g2 = ((pc.year, pc.month_of_year, pc.day_of_month,
                           pc.get_is_calendar_date()),
                          (po.year, po.day_of_year, po.get_is_ordinal_date()),
                          (pw.year, pw.week_of_year, pw.day_of_week,
                           pw.get_is_week_date()))
                    e2 = (c + (True,), o + (True,), w + (True,))
                    mixed = [v for v in (pc, po, pw) if sum(
                        [v.get_is_calendar_date(), v.get_is_ordinal_date(),
                         v.get_is_week_date()]) != 1]
                    if mixed:
                        fails.append("timepoint_to_form: a view of %s claims "
                                     "more than one representation: %r" % (
                                         p, dict(mixed[0].get_props())))
                        break
                    if g2 != e2:
                        fails.append("timepoint_to: %s -> %r ref %r" % (
                            p, g2, e2))
                        break
    except Exception as e:      # conversions must be total on valid dates
        fails.append("exception: mode %s year %d: %s: %s" % (
            mode, y, type(e).__name__, e))
    finally:
        cal.set_mode("gregorian")
    return fails, keys, n


def check_case(case):
    mode = case["mode"]
    if case["kind"] == "year":
        fails, keys, n = check_year(mode, case["year"])
        out = Outcome(fail=fails[0] if fails else None, nontrivial=bool(keys),
                      classes=["year/" + R.canon(mode),
                               "spelling/" + mode], weight=n)
        out.keys = keys
        return out
    D = _lib()
    a, b = case["start"], case["end"]
    cal = D.Calendar.default()
    cal.set_mode(mode)
    try:
        got = D.get_days_in_year_range(a, b)
    except Exception as e:
        got = "%s: %s" % (type(e).__name__, e)
    finally:
        cal.set_mode("gregorian")
    exp = R.days_in_year_range(R.canon(mode), a, b)
    spans_century = a <= b and (b // 100 != a // 100 or a % 100 == 0)
    return Outcome(
        fail=None if got == exp else
        "days_in_year_range: mode %s (%d,%d) -> %r ref %r" % (mode, a, b, got, exp),
        nontrivial=spans_century or a > b,
        classes=["range/" + ("reversed" if a > b else
                             "century" if spans_century else "plain")])


def st_year():
    return st.one_of(
        st.integers(-999999, 999999),
        st.integers(-12000, 12000),
        st.sampled_from([-400, -100, -4, -1, 0, 1, 4, 100, 400, 9999, 10000,
                         99999, 100000, -99999, 999999, -999999]))


def run_shard(ctx):
    ALL_VIEWS[0] = ctx.tier == "thorough"
    if ctx.index == 0:
        ctx.extra["refcal_selftest_days"] = R.self_test()
    jobs = year_jobs(ctx.tier, ctx.base_seed)
    for i, (mode, y) in enumerate(jobs):
        if i % ctx.nshards != ctx.index:
            continue
        case = {"kind": "year", "mode": mode, "year": y}
        out = ctx.observe(case, check_case)
        if out.fail:
            return
    quick = ctx.tier == "quick"
    year_cases = st.builds(
        lambda m, y: {"kind": "year", "mode": m, "year": y},
        st.sampled_from(R.MODE_SPELLINGS), st_year())
    range_cases = st.builds(
        lambda m, a, k, rev: {"kind": "range", "mode": m,
                              "start": a + k if rev else a,
                              "end": a if rev else a + k},
        st.sampled_from(R.MODE_SPELLINGS), st_year(),
        st.one_of(st.integers(0, 1200), st.integers(0, 30000)), st.booleans())
    ctx.hyp(year_cases, check_case, 4 if quick else 60)
    ctx.hyp(range_cases, check_case, 150 if quick else 3000, seed_salt=1)
