"""C09 - impossible dates and malformed text are rejected, cleanly."""
import itertools
import math
import os
import time

from hypothesis import strategies as st

from vlib import forms as F
from vlib import gen as G
from vlib import model as M
from vlib import refcal as R
from vlib.runner import Outcome, Hang, watchdog
from vlib.checks import c07, c10
from vlib.checks.c06 import fake_system_zone

PID = "C09"
RULE = (
    "kind 'box' (enumerated exhaustively per mode spelling and year type): "
    "every field tuple in a box around the legal ranges - month -1..14 x day "
    "-1..33, day-of-year -1..368, week -1..55 x weekday -1..9, hour -1..26 x "
    "minute/second in {-1,0,1,59,60,61}, zone hours -100..100 x minutes "
    "-61..61 - through the TimePoint/TimeZone constructors and through every "
    "complete text notation that can spell the tuple; accepted <=> the "
    "reference calendar says it is a real date-time of the mode, refusal must "
    "be a ValueError subclass. Truncated (year-less) constructor tuples: "
    "month 0/13, day 0 or beyond the mode's longest month / the named month, "
    "day-of-year 0 or beyond the mode's leap-year length, week beyond the "
    "mode's longest week-year, weekday 0/8 refused; "
    "in-range accepted. kind 'fuzz' (Hypothesis): mutations and splices of "
    "valid time point, duration and recurrence expressions and arbitrary "
    "unicode (incl. non-ASCII digits) through the three parsers under "
    "generated parser configurations: the call returns a valid object of the "
    "right class or raises a ValueError subclass, within a watchdog limit. "
    "Non-trivial: box tuples within +-1 of a range boundary; fuzz inputs that "
    "reach a sub-parser or parse successfully. Distinct by digest. A "
    "coverage-guided atheris/libFuzzer campaign over the same oracle (bytes "
    "decoded to grammar tokens, vlib/fuzz) adds its executions to "
    "'evaluations' (6k quick; 4 x 400k thorough, empty and seeded corpus).")
ASSUMPTIONS = [
    "reference calendar vlib/refcal.py decides which tuples are real dates",
    "hang limit: 5 s for time point and duration text (<= 200 chars; typical "
    "< 1 ms); recurrences 10 s + 5 us x estimated days walked (measured: "
    "0.05-0.15 us per day), and inputs whose estimated walk exceeds 2e7 days are not executed (counted as "
    "cost_skipped) because the library legitimately walks day by day",
    "the recurrence parser is only configured with time point parsers that "
    "do not allow truncated forms (arithmetic on truncated points is "
    "documented as unsupported, so such a recurrence denotes no series)",
    "a parsed Duration is 'valid' when its components are finite numbers; a "
    "parsed TimeRecurrence when its first 3 points can be produced",
]


def EXHAUSTIVE(tier):
    return True


EXHAUSTIVE_NOTE = (
    "the 'box' sub-domain (field tuples around the legal ranges for the listed"
    " year types, all 7 mode spellings, constructor + text notations) is "
    "enumerated completely in both tiers; the fuzz sub-domain is sampled")

_YEARS = [0, -1, -4, 1, 4, 1900, 1999, 2000, 2001, 2002, 2003, 2004, 2005, 2006,
          2015, 2020, 2021, 2100, 9999, 10000, -400, -10000]
# every year type of every mode (leap/common x 51/52/53 weeks, year 0,
# negative, > 9999); the same years under every mode on purpose
YEAR_TYPES = {m: _YEARS for m in ("gregorian", "360day", "365day", "366day")}
EDGE = (-1, 0, 1, 59, 60, 61)


def lib_exc():
    from metomi.isodatetime import exceptions
    return exceptions


def _try(fn):
    """('ok', value) | ('refused', exc) | ('bad', exc)."""
    try:
        return "ok", fn()
    except ValueError as e:
        return "refused", e
    except Exception as e:      # noqa: BLE001
        return "bad", e


def _judge(what, valid, res, classes_key):
    st_, val = res
    if st_ == "bad":
        return "wrong_exception: %s raised %s: %s" % (
            what, type(val).__name__, val)
    if valid and st_ != "ok":
        return "valid_refused: %s is a real date-time but was refused: %s" % (
            what, val)
    if not valid and st_ == "ok":
        return "impossible_accepted: %s was accepted as %s" % (what, M.sp(val))
    return None


_BOX_PARSER = []


def long_lived_parser():
    """One TimePointParser for all the boxes of a shard (as an application
    would hold it): it survives the mode switches between box jobs."""
    if not _BOX_PARSER:
        from metomi.isodatetime import parsers
        _BOX_PARSER.append(parsers.TimePointParser(
            num_expanded_year_digits=2, assumed_time_zone=(0, 0)))
    return _BOX_PARSER[0]


_BOX_PARSER0 = []


def long_lived_parser0():
    """The same, for four-digit years (used through strptime)."""
    if not _BOX_PARSER0:
        from metomi.isodatetime import parsers
        _BOX_PARSER0.append(parsers.TimePointParser(assumed_time_zone=(0, 0)))
    return _BOX_PARSER0[0]


def box_year(mode, y):
    """Enumerate the date boxes for one (mode, year). Yields (key, fail)."""
    D = M.lib()
    cm = R.canon(mode)
    xd = 0 if 0 <= y <= 9999 else 2
    P = long_lived_parser()
    P0 = long_lived_parser0()
    ml = R.mlens(cm, y)
    near_m = lambda v, top: v in (0, 1, top, top + 1)   # noqa: E731

    def ytext(ext):
        if xd:
            return "%s%06d" % ("-" if y < 0 else "+", abs(y))
        return "%04d" % y
    for mo in range(-1, 15):
        for d in range(-1, 34):
            valid = R.valid_cal(cm, y, mo, d)
            nt = near_m(mo, 12) or (1 <= mo <= 12 and near_m(d, ml[mo - 1]))
            what = "%s TimePoint(year=%d, month_of_year=%d, day_of_month=%d)" % (
                mode, y, mo, d)
            yield ("c", mo, d), nt, _judge(what, valid, _try(
                lambda: D.TimePoint(year=y, month_of_year=mo, day_of_month=d,
                                    num_expanded_year_digits=xd)), "cal")
            if 0 <= mo <= 99 and 0 <= d <= 99:
                for ext in (True, False):
                    s = ytext(ext) + ("-%02d-%02d" if ext else "%02d%02d") % (mo, d)
                    if draw_time_suffix(mo, d):
                        s += "T00:00Z" if ext else "T0000Z"
                    yield ("ct", ext, mo, d), nt, _judge(
                        "%s parse(%r)" % (mode, s), valid,
                        _try(lambda: P.parse(s)), "cal_text")
                if xd == 0:
                    # the strptime entry point, with and without its
                    # dump_format keyword
                    s = "%04d-%02d-%02d" % (y, mo, d)
                    dfm = "CCYY-MM-DD" if (mo + d) % 2 else None
                    yield ("cs", mo, d), nt, _judge(
                        "%s strptime(%r, '%%Y-%%m-%%d', dump_format=%r)" % (
                            mode, s, dfm), valid,
                        _try(lambda: P0.strptime(s, "%Y-%m-%d", dump_format=dfm)),
                        "cal_strptime")
    n = R.ylen(cm, y)
    for doy in range(-1, 369):
        valid = R.valid_ord(cm, y, doy)
        nt = near_m(doy, n)
        what = "%s TimePoint(year=%d, day_of_year=%d)" % (mode, y, doy)
        yield ("o", doy), nt, _judge(what, valid, _try(
            lambda: D.TimePoint(year=y, day_of_year=doy,
                                num_expanded_year_digits=xd)), "ord")
        if doy >= 0:
            for ext in (True, False):
                s = ytext(ext) + ("-%03d" if ext else "%03d") % doy
                yield ("ot", ext, doy), nt, _judge(
                    "%s parse(%r)" % (mode, s), valid,
                    _try(lambda: P.parse(s)), "ord_text")
            if xd == 0:
                s = "%04d-%03d" % (y, doy)
                dfm = "CCYY-DDD" if doy % 2 else None
                yield ("os", doy), nt, _judge(
                    "%s strptime(%r, '%%Y-%%j', dump_format=%r)" % (mode, s, dfm),
                    valid, _try(lambda: P0.strptime(s, "%Y-%j", dump_format=dfm)),
                    "ord_strptime")
    wk = R.weeks_in_year(cm, y)
    for w in range(-1, 56):
        for wd in range(-1, 10):
            valid = R.valid_week(cm, y, w, wd)
            nt = near_m(w, wk) or near_m(wd, 7)
            what = "%s TimePoint(year=%d, week_of_year=%d, day_of_week=%d)" % (
                mode, y, w, wd)
            yield ("w", w, wd), nt, _judge(what, valid, _try(
                lambda: D.TimePoint(year=y, week_of_year=w, day_of_week=wd,
                                    num_expanded_year_digits=xd)), "week")
            if w >= 0 and 0 <= wd <= 9:
                for ext in (True, False):
                    s = ytext(ext) + ("-W%02d-%d" if ext else "W%02d%d") % (w, wd)
                    yield ("wt", ext, w, wd), nt, _judge(
                        "%s parse(%r)" % (mode, s), valid,
                        _try(lambda: P.parse(s)), "week_text")


def draw_time_suffix(mo, d):
    return (mo + d) % 3 == 0


def box_time(mode):
    D = M.lib()
    from metomi.isodatetime import parsers
    P = parsers.TimePointParser(assumed_time_zone=(0, 0))
    for h in range(-1, 27):
        for mi in EDGE:
            for s in EDGE:
                valid = (0 <= h <= 23 and 0 <= mi <= 59 and 0 <= s <= 59) or (
                    h == 24 and mi == 0 and s == 0)
                nt = True
                what = "%s TimePoint(2001-02-03, hour=%d, minute=%d, second=%d)" \
                       % (mode, h, mi, s)
                yield ("t", h, mi, s), nt, _judge(what, valid, _try(
                    lambda: D.TimePoint(year=2001, month_of_year=2,
                                        day_of_month=3, hour_of_day=h,
                                        minute_of_hour=mi, second_of_minute=s)),
                    "time")
                if h >= 0 and mi >= 0 and s >= 0:
                    for txt in ("2001-02-03T%02d:%02d:%02dZ" % (h, mi, s),
                                "20010203T%02d%02d%02dZ" % (h, mi, s)):
                        yield ("tt", txt), nt, _judge(
                            "%s parse(%r)" % (mode, txt), valid,
                            _try(lambda: P.parse(txt)), "time_text")
        for mi in EDGE:
            if h < 0 or mi < 0:
                continue
            valid = (0 <= h <= 23 and 0 <= mi <= 59) or (h == 24 and mi == 0)
            for txt in ("2001-02-03T%02d:%02dZ" % (h, mi),
                        "20010203T%02d%02dZ" % (h, mi)):
                yield ("tt", txt), True, _judge(
                    "%s parse(%r)" % (mode, txt), valid,
                    _try(lambda: P.parse(txt)), "time_text")
        # decimal minute / second forms: 24:00 plus any fraction is impossible
        if h in (0, 23, 24):
            for frac, fv in (("0", 0.0), ("5", 0.5), ("000001", 1e-6),
                             ("25", 0.25)):
                valid = h < 24 or fv == 0.0
                for txt in ("2001-02-03T%02d:00:00,%sZ" % (h, frac),
                            "20010203T%02d0000.%sZ" % (h, frac),
                            "2001-02-03T%02d:00,%sZ" % (h, frac),
                            "20010203T%02d00,%sZ" % (h, frac)):
                    yield ("tt", txt), True, _judge(
                        "%s parse(%r)" % (mode, txt), valid,
                        _try(lambda: P.parse(txt)), "time_text")
                yield ("tsdec", h, frac), True, _judge(
                    "%s TimePoint(2001-02-03, hour=%d, minute=0, second=0, "
                    "second_decimal=%r)" % (mode, h, fv), valid, _try(
                        lambda: D.TimePoint(
                            year=2001, month_of_year=2, day_of_month=3,
                            hour_of_day=h, minute_of_hour=0, second_of_minute=0,
                            second_of_minute_decimal=fv)), "time")
                yield ("tmdec", h, frac), True, _judge(
                    "%s TimePoint(2001-02-03, hour=%d, minute=0, "
                    "minute_decimal=%r)" % (mode, h, fv), valid, _try(
                        lambda: D.TimePoint(
                            year=2001, month_of_year=2, day_of_month=3,
                            hour_of_day=h, minute_of_hour=0,
                            minute_of_hour_decimal=fv)), "time")
        # decimal forms: 24 with a non-zero fraction is impossible
        if h >= 0:
            for frac, fv in (("0", 0.0), ("5", 0.5), ("000001", 1e-6)):
                valid = 0 <= h <= 23 or (h == 24 and fv == 0.0)
                txt = "2001-02-03T%02d,%sZ" % (h, frac)
                yield ("tt", txt), True, _judge(
                    "%s parse(%r)" % (mode, txt), valid,
                    _try(lambda: P.parse(txt)), "time_text")
                yield ("tdec", h, frac), True, _judge(
                    "%s TimePoint(2001-02-03, hour=%d, hour_decimal=%r)" % (
                        mode, h, fv), valid, _try(
                        lambda: D.TimePoint(year=2001, month_of_year=2,
                                            day_of_month=3, hour_of_day=h,
                                            hour_of_day_decimal=fv)), "time")


def box_zone(mode, part, nparts):
    D = M.lib()
    from metomi.isodatetime import parsers
    P = parsers.TimePointParser(assumed_time_zone=(0, 0))
    k = 0
    for h in range(-100, 101):
        for m in range(-61, 62):
            k += 1
            if k % nparts != part:
                continue
            valid = -99 <= h <= 99 and -59 <= m <= 59 and h * m >= 0
            nt = abs(h) >= 99 or abs(m) >= 59 or h == 0 or m == 0 or h * m < 0
            yield ("z", h, m), nt, _judge(
                "TimeZone(hours=%d, minutes=%d)" % (h, m), valid,
                _try(lambda: D.TimeZone(hours=h, minutes=m)), "zone")
            yield ("zp", h, m), nt, _judge(
                "TimePoint(2001, time_zone_hour=%d, time_zone_minute=%d)" % (h, m),
                valid, _try(lambda: D.TimePoint(year=2001, time_zone_hour=h,
                                                time_zone_minute=m)), "zone")
            if nt and (h + m) % 3 == 0:
                # the same pair as a parser's assumed zone, applied to a text
                # without a zone designator
                yield ("za", h, m), nt, _judge(
                    "TimePointParser(assumed_time_zone=(%d, %d)).parse("
                    "'2001-02-03T04:05')" % (h, m), valid,
                    _try(lambda: parsers.TimePointParser(
                        assumed_time_zone=(h, m)).parse("2001-02-03T04:05")),
                    "zone_assumed")
            if h >= 0 and m >= 0 and h <= 99 and m <= 99:
                for sg in "+-":
                    # text can only spell same-signed parts
                    v2 = 0 <= h <= 99 and 0 <= m <= 59
                    for txt in ("2001-02-03T04:05%s%02d:%02d" % (sg, h, m),
                                "20010203T0405%s%02d%02d" % (sg, h, m)):
                        yield ("zt", txt), nt, _judge(
                            "parse(%r)" % txt, v2, _try(lambda: P.parse(txt)),
                            "zone_text")


def box_truncated(mode):
    D = M.lib()
    cm = R.canon(mode)
    leap = R.mlens(cm, 2000)
    for mo in list(range(-1, 15)) + [None]:
        for d in list(range(-1, 34)) + [None]:
            if mo is None and d is None:
                continue
            if mo is None:
                valid = 1 <= d <= max(leap)
            elif d is None:
                valid = 1 <= mo <= 12
            else:
                valid = 1 <= mo <= 12 and 1 <= d <= leap[mo - 1]
            kw = {"truncated": True}
            if mo is not None:
                kw["month_of_year"] = mo
            if d is not None:
                kw["day_of_month"] = d
            if mo == 0 and (d is None or d == 0):
                # month 0 alone is "not specified" to the constructor
                continue
            yield ("trc", mo, d), True, _judge(
                "%s TimePoint(%r)" % (mode, kw), valid,
                _try(lambda: D.TimePoint(**kw)), "trunc")
    for doy in range(-1, 369):
        valid = 1 <= doy <= sum(leap)
        yield ("tro", doy), doy in (0, 1, sum(leap), sum(leap) + 1), _judge(
            "%s TimePoint(truncated, day_of_year=%d)" % (mode, doy), valid,
            _try(lambda: D.TimePoint(truncated=True, day_of_year=doy)), "trunc")
    max_weeks = 52 if cm == "360day" else 53    # longest week-year of the mode
    for w in range(-1, 56):
        if w == 0:
            continue        # week 0 alone is "not specified"
        valid = 1 <= w <= max_weeks
        yield ("trk", w), True, _judge(
            "%s TimePoint(truncated, week_of_year=%d, day_of_week=1)" % (mode, w),
            valid, _try(lambda: D.TimePoint(truncated=True, week_of_year=w,
                                            day_of_week=1)), "trunc")
    for wd in range(-1, 10):
        if wd == 0:
            continue        # weekday 0 alone is "not specified"
        valid = 1 <= wd <= 7
        yield ("trw", wd), True, _judge(
            "%s TimePoint(truncated, day_of_week=%d)" % (mode, wd), valid,
            _try(lambda: D.TimePoint(truncated=True, day_of_week=wd)), "trunc")
    for h in range(-1, 27):
        valid = 0 <= h <= 24
        yield ("trh", h), True, _judge(
            "%s TimePoint(truncated, hour_of_day=%d)" % (mode, h), valid,
            _try(lambda: D.TimePoint(truncated=True, hour_of_day=h)), "trunc")
    for mi in EDGE:
        valid = 0 <= mi <= 59
        yield ("trm", mi), True, _judge(
            "%s TimePoint(truncated, minute_of_hour=%d)" % (mode, mi), valid,
            _try(lambda: D.TimePoint(truncated=True, minute_of_hour=mi)), "trunc")
        yield ("trs", mi), True, _judge(
            "%s TimePoint(truncated, second_of_minute=%d)" % (mode, mi), valid,
            _try(lambda: D.TimePoint(truncated=True, second_of_minute=mi)), "trunc")


def check_box(case):
    mode = case["mode"]
    what = case["what"]
    keys = []
    n = 0
    fail = None
    with M.use_mode(mode):
        if what == "year":
            it = box_year(mode, case["year"])
        elif what == "time":
            it = box_time(mode)
        elif what == "zone":
            it = box_zone(mode, case["part"], case["nparts"])
        else:
            it = box_truncated(mode)
        tag = "%s/%s/%s" % (mode, what, case.get("year", case.get("part", "")))
        for key, nt, f in it:
            n += 1
            if nt:
                keys.append(tag + repr(key))
            if f and not fail:
                fail = f
    out = Outcome(fail=fail, nontrivial=True, weight=n,
                  classes=["box/" + what, "box_mode/" + mode], keys=keys)
    return out


# ---------------------------------------------------------------------------
# fuzz


def _est_duration_days(part):
    """Days spanned by one interval, or None when it cannot be read."""
    import re
    if part.startswith("-"):
        part = part[1:]
    m = re.match(r"^P(?:(\d+)Y)?(?:(\d+)M)?(?:(\d+)D)?(?:T(?:(\d[^HMS]*)H)?"
                 r"(?:(\d[^HMS]*)M)?(?:(\d[^HMS]*)S)?)?$", part)
    if m and m.group(0) != "P":
        y, mo, d = (min(int(x), 10 ** 15) if x else 0 for x in m.group(1, 2, 3))
        tot = y * 366 + mo * 31 + d
        for g, per_day in ((4, 24.0), (5, 1440.0), (6, 86400.0)):
            if m.group(g):
                try:
                    tot += float(m.group(g).replace(",", ".")) / per_day
                except ValueError:
                    return None
        return tot
    m = re.match(r"^P(\d+)W$", part)
    if m:
        return min(int(m.group(1)), 10 ** 15) * 7
    m = re.match(r"^P(\d{4})", part)
    if m and part.isascii():
        return (int(m.group(1)) + 1) * 366 + 400   # date-time-like spelling
    return None


def _est_year(part):
    import re
    m = re.match(r"^([+-])(\d{5,8})", part)
    if m:
        return int(m.group(1) + m.group(2)[:-0 or None][:8])
    m = re.match(r"^(\d{4})", part)
    if m:
        return int(m.group(1))
    m = re.match(r"^(\d{2})", part)
    return int(m.group(1)) * 100 if m else None


def _real_year(tpp, part):
    """Year of the point as the time point parser itself reads it (a reduced
    century form with expanded digits, +006342, is the year 634200), None if
    it refuses the text."""
    if tpp is None:
        return None
    try:
        y = tpp.parse(part).year
        return y if isinstance(y, int) else None
    except Exception:       # noqa: BLE001
        return None


def est_recurrence_days(text, tpp=None):
    """Rough upper estimate of the days the library may walk for this text
    (constructing the far anchor walks interval x (reps-1) days; producing 3
    points walks 3 intervals)."""
    import re
    m = re.match(r"^R(\d*)/([^/]*)/(.*)$", text, re.S)
    if not m:
        return 0
    reps = m.group(1)
    if reps and not reps.isascii():
        return 10 ** 12
    reps = min(int(reps), 10 ** 15) if reps else None
    a, b = m.group(2), m.group(3)
    if a.startswith("P") or a.startswith("-P"):
        interval = _est_duration_days(a)
    elif b.startswith("P") or b.startswith("-P"):
        interval = _est_duration_days(b)
    else:
        ya, yb = _est_year(a), _est_year(b)
        ra, rb = _real_year(tpp, a), _real_year(tpp, b)
        if ra is not None and rb is not None:
            ya, yb = ra, rb
        if ya is None or yb is None:
            interval = None
        else:
            # expanded years: the digits read may include month digits
            interval = (abs(yb - ya) + 2) * 366
    if interval is None:
        interval = 10 ** 7          # unreadable: assume the worst
    return interval * (3 + (reps or 0))


def valid_duration(d):
    if d.get_is_in_weeks():
        vals = [d.weeks]
    else:
        vals = [d.years, d.months, d.days, d.hours, d.minutes, d.seconds]
    return all(not isinstance(v, bool) and (
        isinstance(v, int) or (isinstance(v, float) and math.isfinite(v)))
        for v in vals)


def check_fuzz(case):
    mode, which, text, cfg = (case["mode"], case["parser"], case["text"],
                              case["cfg"])
    cm = R.canon(mode)
    classes = ["fuzz/" + which]
    fail = None
    nontrivial = False
    from metomi.isodatetime import parsers
    D = M.lib()
    with M.use_mode(mode), fake_system_zone(tuple(cfg["sys"])):
        try:
            tpp = c07.get_parser(cfg)
            limit = 5.0
            if which == "recurrence":
                est = est_recurrence_days(text, tpp)
                if est > 2e7:
                    return Outcome(skip=True, classes=["fuzz/cost_skipped"])
                limit = 10.0 + 5e-6 * est
            t0 = time.monotonic()
            with watchdog(limit):
                if which == "timepoint":
                    res = _try(lambda: tpp.parse(text))
                elif which == "duration":
                    res = _try(lambda: parsers.DurationParser().parse(text))
                else:
                    rp = parsers.TimeRecurrenceParser(timepoint_parser=tpp)
                    res = _try(lambda: rp.parse(text))
                if res[0] == "ok" and which == "recurrence":
                    pts = _try(lambda: list(itertools.islice(iter(res[1]), 3)))
                else:
                    pts = None
            st_, val = res
            if st_ == "bad":
                fail = "wrong_exception: %s parser on %r raised %s: %s" % (
                    which, text, type(val).__name__, val)
            elif st_ == "ok":
                nontrivial = True
                classes.append("fuzz/%s/parsed" % which)
                if which == "timepoint":
                    if not isinstance(val, D.TimePoint):
                        fail = "wrong_type: %r -> %r" % (text, type(val))
                    elif not val.truncated:
                        n = M.Native(cm, val, allow24=True)
                        if n.problems:
                            fail = "invalid_object: %r parsed to %r: %s" % (
                                text, n.f, n.problems)
                elif which == "duration":
                    if type(val) is not D.Duration:
                        fail = "wrong_type: %r -> %r" % (text, type(val))
                    elif not valid_duration(val):
                        fail = "invalid_object: duration %r parsed to " \
                               "non-finite components %r" % (text, c10.comps(val))
                else:
                    if not isinstance(val, D.TimeRecurrence):
                        fail = "wrong_type: %r -> %r" % (text, type(val))
                    elif pts[0] == "bad" or (pts[0] == "refused"):
                        fail = "invalid_object: recurrence %r parsed but its " \
                               "first points cannot be produced: %s: %s" % (
                                   text, type(pts[1]).__name__, pts[1])
                    else:
                        # the object the parser returns holds real dates only:
                        # its anchors (also the derived far one) and points
                        for nm, q in [("start_point", val.start_point),
                                      ("end_point", val.end_point)] + [
                                          ("point", q) for q in pts[1]]:
                            if q is None or q.truncated:
                                continue
                            n = M.Native(cm, q, allow24=True)
                            if n.problems:
                                fail = ("invalid_object: recurrence %r parsed "
                                        "to an object whose %s is %r: %s" % (
                                            text, nm, n.f, n.problems))
                                break
            else:
                # which sub-parser refused it?
                msg = str(val)
                if which == "recurrence" and "recurrence" not in msg:
                    nontrivial = True
                    classes.append("fuzz/recurrence/reached_subparser")
                elif which == "timepoint" and "T" in text:
                    nontrivial = True
                    classes.append("fuzz/timepoint/reached_subparser")
                elif which == "duration" and text.lstrip("-").startswith("P"):
                    nontrivial = True
                    classes.append("fuzz/duration/reached_subparser")
        except Hang as e:
            fail = "hang: %s parser on %r (%d chars): %s" % (
                which, text, len(text), e)
        except Exception as e:      # noqa: BLE001
            fail = "exception: harness-level %s on %r: %s" % (
                type(e).__name__, text, e)
    return Outcome(fail=fail, nontrivial=nontrivial, classes=classes)


def check_case(case):
    if case["kind"] == "box":
        return check_box(case)
    return check_fuzz(case)


ALPHABET = ("0123456789" * 3 + "-+:.,TZWPRYMDHS/" * 2 +
            " \t\n\x00eEzwtprx%" + "٠١٣٩０１５"
            "−²१۳")


@st.composite
def st_valid_text(draw, which):
    """A valid expression for the given parser plus a parser configuration."""
    if which == "duration":
        c = draw(st.one_of(c10.st_text(), c10.st_alt()))
        return c.get("text") or c["alt"], None
    if which == "timepoint":
        c = draw(st.one_of(c07.st_full(), c07.st_full(), c07.st_trunc()))
        return c["text"], c
    if draw(st.integers(0, 5)) == 0:
        # an anchor on a day only some years / months have, with a month or
        # year interval: the far anchor the parser derives must be a real date
        y = draw(st.sampled_from([2020, 2096, 2000, 1896, 2024, -4, 0, 1996]))
        anchor = draw(st.sampled_from([
            "%s-02-29", "%s-366", "%s-W53-3", "%s-01-31", "%s-12-31",
            "%s-03-31"])) % ("%04d" % y if y >= 0 else "-%06d" % -y)
        anchor += draw(st.sampled_from(["T00:00:00Z", "T12:30:00+05:30", "T24:00Z"]))
        dur = draw(st.sampled_from(["P1Y", "P4Y", "P100Y", "P1M", "P11M", "P1Y1M",
                                    "P13M", "P1Y1D"]))
        reps = draw(st.sampled_from(["2", "3", "5", ""]))
        text = ("R%s/%s/%s" % (reps, anchor, dur) if draw(st.booleans())
                else "R%s/%s/%s" % (reps, dur, anchor))
        if draw(st.integers(0, 5)) == 0:
            # two points, the second not later than the first, with signed or
            # reduced years (refused or not, depending on the parser's number
            # of expanded year digits): the refusal message formats both
            a, b = draw(st.sampled_from([
                ("-0001", "-0002"), ("0001", "-0001"), ("+0002", "+0001"),
                ("-000001", "-000002"), ("2001-01-01T00Z", "-0001"),
                ("0002", "0001"), ("-0001-01-01T00Z", "-0001-01-01T00Z")]))
            text = "R%s/%s/%s" % (reps, a, b)
        return text, None
    c1 = draw(c07.st_full())
    reps = draw(st.sampled_from(["", "", "1", "2", "3", "10", "0"]))
    shape = draw(st.sampled_from([1, 3, 3, 4]))
    dur = draw(c10.st_text())["text"].lstrip("-")
    if shape == 1:
        c2 = draw(c07.st_full())
        return "R%s/%s/%s" % (reps, c1["text"], c2["text"]), c1
    if shape == 3:
        return "R%s/%s/%s" % (reps, c1["text"], dur), c1
    return "R%s/%s/%s" % (reps, dur, c1["text"]), c1


@st.composite
def st_fuzz(draw):
    mode = draw(G.MODE_WEIGHTED)
    which = draw(st.sampled_from(["timepoint", "duration", "recurrence"]))
    cfg = draw(c07.st_cfg(truncated=(which == "timepoint" and
                                     draw(st.booleans()))))
    long_run = False
    if draw(st.integers(0, 9)) == 0:
        text = draw(st.text(max_size=40))
    else:
        text, src = draw(st_valid_text(which))
        if src is not None and draw(st.booleans()) and (
                which == "timepoint" or not src["cfg"].get("truncated")):
            cfg = dict(src["cfg"])
        nmut = draw(st.sampled_from([0, 1, 1, 1, 2, 2, 3, 5]))
        long_run = False
        for _ in range(nmut):
            op = draw(st.sampled_from(["del", "ins", "rep", "dup", "swap",
                                       "splice", "cut", "uni", "long"]))
            n = len(text)
            i = draw(st.integers(0, max(n - 1, 0)))
            if op == "del" and n:
                text = text[:i] + text[i + 1:]
            elif op == "ins":
                text = text[:i] + draw(st.sampled_from(ALPHABET)) + text[i:]
            elif op == "rep" and n:
                text = text[:i] + draw(st.sampled_from(ALPHABET)) + text[i + 1:]
            elif op == "dup" and n:
                j = draw(st.integers(i, min(n, i + 6)))
                text = text[:j] + text[i:j] * draw(st.sampled_from([1, 1, 2, 8])) + text[j:]
            elif op == "swap" and n > 1:
                j = draw(st.integers(0, n - 1))
                lst = list(text)
                lst[i], lst[j] = lst[j], lst[i]
                text = "".join(lst)
            elif op == "splice":
                other, _ = draw(st_valid_text(draw(st.sampled_from(
                    ["timepoint", "duration", "recurrence"]))))
                j = draw(st.integers(0, len(other)))
                text = text[:i] + other[j:]
            elif op == "cut" and n:
                text = text[:i]
            elif op == "long" and n:
                # a very long run of one digit (hundreds of characters)
                long_run = True
                text = text[:i] + draw(st.sampled_from("0159")) * draw(
                    st.sampled_from([40, 310, 330, 400])) + text[i:]
            elif op == "uni" and n:
                ch = text[i]
                if ch.isdigit() and ch.isascii():
                    text = text[:i] + chr(draw(st.sampled_from(
                        [0x0660, 0xff10, 0x0966, 0x06f0])) + int(ch)) + text[i + 1:]
        text = text[:700 if long_run else 200]
    return {"kind": "fuzz", "mode": mode, "parser": which, "cfg": cfg,
            "text": text}


MODE_ORDER = ["360day", "366day", "360_day", "366_day", "gregorian", "365day",
              "365_day"]        # most permissive month tables first


def box_jobs():
    """[(group, job)]: jobs of one group run in one shard, in this order, so
    that the same year (the same texts) is visited under every mode by the
    same long-lived parser."""
    jobs = []
    years = sorted({y for ys in YEAR_TYPES.values() for y in ys})
    for g, y in enumerate(years):
        for mode in MODE_ORDER:
            if y in YEAR_TYPES[R.canon(mode)]:
                jobs.append((g, {"kind": "box", "mode": mode, "what": "year",
                                 "year": y}))
    g = len(years)
    for mode in MODE_ORDER:
        jobs.append((g, {"kind": "box", "mode": mode, "what": "time"}))
        jobs.append((g + 1, {"kind": "box", "mode": mode, "what": "truncated"}))
    for part in range(8):
        jobs.append((g + 2 + part, {"kind": "box", "mode": "gregorian",
                                    "what": "zone", "part": part, "nparts": 8}))
    return jobs


def run_atheris(ctx, runs, seeded_corpus, salt):
    """Coverage-guided campaign through vlib/fuzz/parsers_atheris.py (needs
    python3-vt = the tooling venv with atheris).  Crashing inputs are decoded
    and re-judged here; the saved input's decoded case is the replay unit."""
    import glob
    import re
    import shutil
    import subprocess
    import sys
    import tempfile
    from vlib.fuzz import codec
    from vlib.runner import VERIF_DIR, REPO
    exe = shutil.which("python3-vt")
    if exe is None:
        ctx.extra["atheris"] = "python3-vt not found: campaign skipped"
        return
    tmp = tempfile.mkdtemp(prefix="vfuzz.")
    try:
        corpus = os.path.join(tmp, "corpus")
        os.mkdir(corpus)
        if seeded_corpus:
            seeds = [("timepoint", "2000-01-02T03:04:05Z"), ("timepoint", "20000102T030405+0100"),
                     ("timepoint", "2000-W01-1T24:00"), ("timepoint", "-W-3T06:30"),
                     ("duration", "P1Y2M3DT4H5M6,5S"), ("duration", "P0001-02-03T04:05:06"),
                     ("recurrence", "R3/2000-01-01T00Z/P1M"),
                     ("recurrence", "R/PT1H/2000-001T00:00Z"),
                     ("recurrence", "R2/2000-01-01T00Z/2000-01-02T00Z")]
            for k, (which, text) in enumerate(seeds):
                with open(os.path.join(corpus, "seed%d" % k), "wb") as f:
                    f.write(codec.encode(which, text, k % len(codec.CONFIGS), k % 4))
        env = dict(os.environ, VERIF_REPO=REPO, PYTHONHASHSEED="0")
        cmd = [exe, os.path.join(VERIF_DIR, "vlib", "fuzz", "parsers_atheris.py"),
               corpus, "-runs=%d" % runs, "-seed=%d" % (ctx.seed % 2 ** 31 + salt or 1),
               "-max_len=64", "-timeout=60", "-print_final_stats=1",
               "-artifact_prefix=" + tmp + os.sep]
        r = subprocess.run(cmd, capture_output=True, text=True, env=env, cwd=tmp)
        m = re.search(r"number_of_executed_units:\s*(\d+)", r.stderr)
        execs = int(m.group(1)) if m else 0
        m = re.search(r"cov: (\d+) ft: (\d+)", r.stderr[::-1][::-1].rsplit("DONE", 1)[-1]) \
            if "DONE" in r.stderr else None
        ctx.extra["atheris_executions"] = ctx.extra.get("atheris_executions", 0) + execs
        ctx.extra["atheris_campaigns"] = ctx.extra.get("atheris_campaigns", 0) + 1
        ctx.evaluations += execs
        for path in sorted(glob.glob(os.path.join(tmp, "crash-*")) +
                           glob.glob(os.path.join(tmp, "timeout-*"))):
            with open(path, "rb") as f:
                case = codec.decode(f.read())
            out = ctx.observe(case, check_case)
            if not out.fail:
                ctx.extra["atheris_unreproduced_crashes"] = ctx.extra.get(
                    "atheris_unreproduced_crashes", 0) + 1
        if r.returncode not in (0,) and not glob.glob(os.path.join(tmp, "crash-*")) \
                and not glob.glob(os.path.join(tmp, "timeout-*")):
            raise RuntimeError("atheris target failed: %s" % r.stderr[-1500:])
    finally:
        shutil.rmtree(tmp, ignore_errors=True)


def run_shard(ctx):
    if ctx.tier == "quick" and ctx.index == ctx.nshards - 1:
        run_atheris(ctx, 6000, True, 0)
    if ctx.tier == "thorough" and ctx.index >= ctx.nshards - 4:
        run_atheris(ctx, 400000, ctx.index % 2 == 0, ctx.index)
    for g, case in box_jobs():
        if g % ctx.nshards != ctx.index:
            continue
        out = ctx.observe(case, check_case)
        if out.fail:
            return
    quick = ctx.tier == "quick"
    ctx.hyp(st_fuzz(), check_case, 2500 if quick else 80000)
