"""C08 - writing a time point out and reading it back is lossless."""
from fractions import Fraction

from hypothesis import strategies as st

from vlib import gen as G
from vlib import model as M
from vlib import refcal as R
from vlib.runner import Outcome

PID = "C08"
RULE = (
    "case = (mode, TimePoint kwargs, expanded digits n in 0..3, route). "
    "Points: all three representations, {hms, hms,tt, hm,nn, h,ii} with <= 6 "
    "decimal digits, 24:00, offsets -99:59..+99:59, years 0..9999 for n=0 and "
    "+-(10^(4+n)-1) for n>0. route 'str': q = parse(str(p)) must have the "
    "same representation, offset and fields, q == p, str(q) == str(p). route "
    "'format': a complete dump format drawn from a grammar (basic/extended x "
    "calendar/ordinal/week date, time form at p's precision, zone template "
    "+hh:mm/+hhmm/+hh or literal Z / literal offset), applied through "
    "TimePointDumper.dump or the dump_format attribute; parse(dump) must "
    "denote the same instant (vlib.refcal); at the edge of the agreed digits "
    "(the view's year - calendar year or ISO week-year in the format's zone "
    "- differs from the stored one) the dump may instead be refused with "
    "TimePointDumperBoundsError, and only when that year does not fit. One "
    "format case in five starts from an edge point (midnight on a month / "
    "year / leap-day edge, dumped in a zone on the other side). Non-trivial = expanded/negative "
    "year, non-calendar representation, decimal form, 24:00, or a non-zero-"
    "minute or negative offset; distinct by case digest.")
ASSUMPTIONS = [
    "reference calendar vlib/refcal.py",
    "decimal fractions have at most six digits (statement)",
    "+hh zone templates only for zero-minute offsets; zone-converting formats "
    "are not applied to h,ii points (six digits of an hour cannot spell a "
    "shift by an arbitrary number of minutes)",
]

DATE_FMT = {("c", "extended"): "CCYY-MM-DD", ("c", "basic"): "CCYYMMDD",
            ("o", "extended"): "CCYY-DDD", ("o", "basic"): "CCYYDDD",
            ("w", "extended"): "CCYY-Www-D", ("w", "basic"): "CCYYWwwD"}
TIME_FMT = {
    "hms": {"extended": ["hh:mm:ss", "hh:mm:ss,tt", "hh:mm:ss.tt"],
            "basic": ["hhmmss", "hhmmss,tt", "hhmmss.tt"]},
    "hms,tt": {"extended": ["hh:mm:ss,tt", "hh:mm:ss.tt"],
               "basic": ["hhmmss,tt", "hhmmss.tt"]},
    "hm,nn": {"extended": ["hh:mm,nn", "hh:mm.nn"], "basic": ["hhmm,nn", "hhmm.nn"]},
    "h,ii": {"extended": ["hh,ii", "hh.ii"], "basic": ["hh,ii", "hh.ii"]},
}
ZONE_TEMPLATES = {"extended": ["+hh:mm", "+hh"], "basic": ["+hhmm", "+hh"]}


def parsers():
    from metomi.isodatetime import parsers as P
    return P


def view_year(cm, kw, fmt):
    """The year a custom format has to print: calendar / ordinal year or ISO
    week-year of the point's date as seen in the format's zone."""
    import re
    tz = M.kw_tz(kw)
    m = re.search(r"(Z|[+-]\d\d(?::?\d\d)?)$", fmt)
    if m:
        z = m.group(1)
        if z == "Z":
            tz = 0
        else:
            sg = -1 if z[0] == "-" else 1
            digits = z[1:].replace(":", "")
            tz = sg * (int(digits[:2]) * 3600 + int(digits[2:] or 0) * 60)
    local = M.kw_instant(cm, kw) + tz
    dns = {local.numerator // (local.denominator * 86400)}
    if kw.get("hour_of_day") == 24:
        dns.add(M.kw_dn(cm, kw))    # 24:00 printed on the day as written
    return sorted(R.week_from_dn(cm, dn)[0] if "Www" in fmt else
                  R.cal_from_dn(cm, dn)[0] for dn in dns)


def check_case(case):
    mode, kw, route = case["mode"], case["p"], case["route"]
    cm = R.canon(mode)
    xd = kw["num_expanded_year_digits"]
    form = M.kw_form(kw)
    rep = M.kw_rep(kw)
    int_class = M.kw_is_int(kw)
    tzh, tzm = kw["time_zone_hour"], kw["time_zone_minute"]
    classes = ["route/" + route, "mode/" + cm, "rep/" + rep, "form/" + form,
               "xdigits/%d" % xd]
    nontrivial = (xd > 0 or kw["year"] < 0 or rep != "c" or
                  form != "hms" or tzm != 0 or tzh < 0)
    fail = None
    with M.use_mode(mode):
        try:
            parser = parsers().TimePointParser(num_expanded_year_digits=xd)
            if route == "str":
                p = M.make_point(kw)
                s = str(p)
                q = parser.parse(s)
                np_, nq = M.Native(cm, p, allow24=True), M.Native(cm, q, allow24=True)
                a = (np_.rep, np_.date, np_.h, np_.m, np_.s, np_.tzh, np_.tzm)
                b = (nq.rep, nq.date, nq.h, nq.m, nq.s, nq.tzh, nq.tzm)
                if a != b:
                    fail = "fields: mode %s %s prints %r which parses to %r, " \
                           "original %r" % (mode, M.fmt_kw(kw), s, b, a)
                elif not (q == p and p == q):
                    fail = "equal: %r parses to a point != the original" % s
                elif str(q) != s:
                    fail = "fixpoint: str(parse(%r)) = %r" % (s, str(q))
                elif hash(q) != hash(p):
                    fail = "hash: %r parses to a point with another hash" % s
                elif case.get("alt"):
                    # the same instant in another offset (same representation
                    # and precision form), written out right after
                    p2 = M.make_point(case["alt"])
                    s2 = str(p2)
                    n2 = M.Native(cm, parser.parse(s2), allow24=True)
                    np2 = M.Native(cm, p2, allow24=True)
                    a2 = (np2.rep, np2.date, np2.h, np2.m, np2.s, np2.tzh, np2.tzm)
                    b2 = (n2.rep, n2.date, n2.h, n2.m, n2.s, n2.tzh, n2.tzm)
                    classes.append("same_instant_other_offset")
                    if a2 != b2:
                        fail = ("fields_alt: mode %s %s prints %r (parsed %r) "
                                "right after the same instant written as %s" % (
                                    mode, M.fmt_kw(case["alt"]), s2, b2,
                                    M.fmt_kw(kw)))
            else:
                fmt = case["fmt"]
                try:
                    if case["via"] == "dump_format":
                        p = M.make_point(dict(kw, dump_format=fmt))
                        s = str(p)
                    else:
                        p = M.make_point(kw)
                        s = M.lib().dumpers.TimePointDumper(
                            num_expanded_year_digits=xd).dump(p, fmt)
                except M.lib().dumpers.TimePointDumperBoundsError as e:
                    if True:
                        # a refusal is right exactly when the year this view
                        # has to print does not fit the format's digits
                        vys = view_year(cm, kw, fmt)
                        top = 10 ** (4 + xd) - 1
                        fits = all((0 <= vy <= 9999) if xd == 0 else
                                   abs(vy) <= top for vy in vys)
                        vy = vys[0]
                        if fits:
                            return Outcome(
                                fail="format_refused: mode %s %s dumped with %r"
                                " raised %s although the year to print is %d" % (
                                    mode, M.fmt_kw(kw), fmt, e, vy),
                                nontrivial=True, classes=classes)
                        return Outcome(nontrivial=True, classes=classes + [
                            "format/year_outside_digits_refused"])
                q = parser.parse(s)
                nq = M.Native(cm, q, allow24=True)
                ip = M.kw_instant(cm, kw)
                classes.append("zone/" + case["zone_kind"])
                if nq.problems:
                    fail = "format_valid: %s dumped with %r -> %r parses to %r:" \
                           " %s" % (M.fmt_kw(kw), fmt, s, nq.f, nq.problems)
                elif abs(nq.instant - ip) > (0 if int_class else M.US):
                    fail = ("format_instant: mode %s %s dumped with %r -> %r, "
                            "which parses to an instant off by %s s" % (
                                mode, M.fmt_kw(kw), fmt, s,
                                float(nq.instant - ip)))
                elif int_class and not (q == p and p == q):
                    fail = "format_equal: %r (format %r) parses to a point != " \
                           "the original %s (q == p: %r, p == q: %r)" % (
                               s, fmt, M.fmt_kw(kw), q == p, p == q)
        except Exception as e:      # noqa: BLE001
            fail = "exception: mode %s %r raised %s: %s" % (
                mode, {k: v for k, v in case.items() if k != "_history"},
                type(e).__name__, e)
    return Outcome(fail=fail, nontrivial=nontrivial, classes=classes)


@st.composite
def st_case(draw):
    mode = draw(G.MODE_WEIGHTED)
    cm = R.canon(mode)
    xd = draw(st.sampled_from([0, 0, 1, 2, 2, 3]))
    top = 10 ** (4 + xd) - 1
    if xd == 0:
        years = st.one_of(st.integers(1, 9998), st.sampled_from(
            [0, 0, 1, 2, 4, 99, 100, 400, 999, 1000, 1900, 2000, 2004, 9998, 9999]),
            st.integers(1900, 2100))
    else:
        years = st.one_of(
            st.integers(-top + 1, top - 1), st.integers(-12000, 12000),
            st.sampled_from([-top + 1, top - 1, -1, 0, 1, -4, -400, 9999, 10000,
                             -9999, -10000]), st.integers(1900, 2100))
    kw = draw(G.st_point_kw(cm, years=years))
    # the week-year (or a 24:00/offset-free year) stays inside the digits
    if not (-top <= kw["year"] <= top) or (xd == 0 and not 0 <= kw["year"] <= 9999):
        kw = draw(G.st_point_kw(cm, years=st.just(2000), reps="co"))
    kw["num_expanded_year_digits"] = xd
    route = draw(st.sampled_from(["str", "str", "format", "format", "format"]))
    edge = route == "format" and draw(st.integers(0, 4)) == 0
    if edge:
        # near midnight on a month / year / leap-day edge, to be dumped in a
        # zone on the other side of it
        kw = draw(G.st_edge_point_kw(cm, forms=G.INT_FORMS))
        xd, top = 2, 10 ** 6 - 1
        kw["num_expanded_year_digits"] = xd
    case = {"mode": mode, "p": kw, "route": route}
    inst = M.kw_instant(cm, kw)
    if route == "str" and inst.denominator == 1 and M.kw_form(kw) == "hms" \
            and draw(st.booleans()):
        alt = G.respell(draw, cm, int(inst), reps=M.kw_rep(kw), allow24=False)
        if -top < alt["year"] < top and (xd > 0 or 0 <= alt["year"] <= 9999):
            alt["num_expanded_year_digits"] = xd
            case["alt"] = alt
    if route == "format":
        nota = draw(st.sampled_from(["basic", "extended"]))
        form = M.kw_form(kw)
        tkey = "hms" if form == "24" else form
        drep = draw(st.sampled_from([M.kw_rep(kw), "c", "o", "w"]))
        tzh, tzm = kw["time_zone_hour"], kw["time_zone_minute"]
        kinds = ["template", "template"]
        if tkey != "h,ii":
            kinds += ["Z", "literal"]
        zk = draw(st.sampled_from(kinds))
        if edge:
            zk = draw(st.sampled_from(["Z", "literal"]))
        if zk == "template":
            zt = draw(st.sampled_from(ZONE_TEMPLATES[nota]))
            if zt == "+hh" and tzm != 0:
                zt = ZONE_TEMPLATES[nota][0]
            zone = zt
        elif zk == "Z":
            zone = "Z"
        else:
            h, m = draw(G.st_tz())
            if edge:
                h, m = -tzh, -tzm
            sg = "-" if (h < 0 or m < 0) else "+"
            if nota == "extended":
                zone = "%s%02d:%02d" % (sg, abs(h), abs(m))
            else:
                zone = "%s%02d%02d" % (sg, abs(h), abs(m))
            if m == 0 and draw(st.booleans()):
                zone = "%s%02d" % (sg, abs(h))
        case["fmt"] = (("+X" if xd else "") + DATE_FMT[(drep, nota)] + "T" +
                       draw(st.sampled_from(TIME_FMT[tkey][nota])) + zone)
        case["zone_kind"] = zk
        case["via"] = draw(st.sampled_from(["dumper", "dump_format"]))
    return case


def run_shard(ctx):
    quick = ctx.tier == "quick"
    ctx.hyp(st_case(), check_case, 2500 if quick else 70000)
