"""C16 - time points, durations, zones and recurrences are immutable values."""
import itertools

from hypothesis import strategies as st
from hypothesis.stateful import RuleBasedStateMachine, initialize, rule

from vlib import gen as G
from vlib import model as M
from vlib import recs as RC
from vlib import refcal as R
from vlib.runner import Outcome, Violation, Hang, watchdog
from vlib.checks.c06 import fake_system_zone

PID = "C16"
RULE = (
    "case = a history (Hypothesis RuleBasedStateMachine, up to 40 steps) over "
    "pools of TimePoint (full incl. 24:00 and decimal forms, and truncated), "
    "Duration, TimeZone and TimeRecurrence values: 'new' steps construct "
    "values from generated kwargs, 'op' steps call a public operation - "
    "arithmetic in both operand orders, the six comparisons, hash, str/repr/"
    "strftime/dump, zone and representation conversions, getters and "
    "properties (incl. the linked time_zone / start_point / end_point / "
    "duration objects, which enter the pools), add_months, add_truncated, "
    "iteration, membership and neighbour queries, indexing, augmented "
    "assignment (+=, -=, *=), construction of recurrences from pooled points "
    "and durations - on operands "
    "drawn from the pools; results enter the pools. Oracle: every value is "
    "snapshotted when first seen (all slots recursively, str result or "
    "exception type, hash) and after EVERY step every value ever seen is "
    "re-snapshotted and must be unchanged, also after an operation raised. "
    "evaluations = operations executed; non-trivial = histories of >= 5 "
    "operations in which a result was later used as an operand; distinct by "
    "history digest.")
ASSUMPTIONS = [
    "any exception from an operation only means 'no result' (e.g. comparing "
    "truncated with full points); aliasing alone is not a violation, an "
    "observable change is",
    "operations that may legitimately run very long (adding a truncated point "
    "that names a time-of-day field to a point with fractional seconds; "
    "date-only truncated points are added to such points; membership tests far from the series) are "
    "not issued / are cut by a 5 s watchdog and counted as no result",
]

FORMATS = ["%Y-%m-%dT%H:%M:%S%z", "%j %X", "%s", "CCYY-MM-DDThh:mm:ssZ",
           "CCYYDDDThhmm+0530", "CCYY-Www-DThh,ii+hh:mm", "+XCCYY-MM-DDThh:mm:ss"]


def lib_types():
    D = M.lib()
    return D.TimePoint, D.Duration, D.TimeZone, D.TimeRecurrence


def snap_slots(v, depth=0):
    TP, DU, TZ, TR = lib_types()
    if isinstance(v, (TP, DU, TR)):
        out = [type(v).__name__]
        for cls in type(v).__mro__:
            for s in getattr(cls, "__slots__", ()):
                try:
                    x = getattr(v, s)
                except AttributeError:
                    out.append((s, "<unset>"))
                    continue
                out.append((s, snap_slots(x, depth + 1)))
        return tuple(out)
    if isinstance(v, float) and v != v:
        return "nan"
    if isinstance(v, (list, tuple)):
        return tuple(snap_slots(x, depth + 1) for x in v)
    return (type(v).__name__, v) if isinstance(v, (int, float)) and not \
        isinstance(v, bool) else v


def observe(v):
    """(slots, str-or-exception, hash-or-exception)."""
    slots = snap_slots(v)
    try:
        s = str(v)
    except Exception as e:      # noqa: BLE001
        s = "<%s>" % type(e).__name__
    try:
        h = hash(v)
    except Exception as e:      # noqa: BLE001
        h = "<%s>" % type(e).__name__
    return slots, s, h


def describe_change(first, now):
    if first[0] != now[0]:
        a, b = dict(x for x in first[0][1:] if isinstance(x, tuple) and len(x) == 2), \
            dict(x for x in now[0][1:] if isinstance(x, tuple) and len(x) == 2)
        diff = ["%s: %r -> %r" % (k, a.get(k), b.get(k)) for k in a
                if a.get(k) != b.get(k)]
        return "state of %s %s changed (%s)" % (first[0][0], first[1],
                                                "; ".join(diff)[:300])
    if first[1] != now[1]:
        return "string form changed %r -> %r" % (first[1], now[1])
    return "hash changed %r -> %r" % (first[2], now[2])


class Interp:
    """Executes steps over the pools and checks the immutability invariant."""

    def __init__(self):
        self.pools = {"tp": [], "dur": [], "tz": [], "rec": []}
        self.values = []        # (value, first observation, origin step)
        self.ids = set()
        self.nops = 0
        self.reused = False
        self.result_ids = set()
        self.self_returns = 0
        self.mode = "gregorian"
        M.lib().Calendar.default().set_mode("gregorian")

    def add(self, v, step_no, is_result=False):
        TP, DU, TZ, TR = lib_types()
        if isinstance(v, (list, tuple)):
            for x in v:
                self.add(x, step_no, is_result)
            return
        if not isinstance(v, (TP, DU, TR)):
            return
        if id(v) in self.ids:
            return
        self.ids.add(id(v))
        if is_result:
            self.result_ids.add(id(v))
        pool = ("tp" if isinstance(v, TP) else "rec" if isinstance(v, TR)
                else "tz" if isinstance(v, TZ) else "dur")
        self.pools[pool].append(v)
        first = observe(v)
        again = observe(v)
        self.values.append((v, first, step_no))
        if again != first:
            return ("observing a new value (str / hash) changes it: %s" %
                    describe_change(first, again))
        return None

    def pick(self, pool, i):
        p = self.pools[pool]
        if not p:
            return None
        v = p[i % len(p)]
        if id(v) in self.result_ids:
            self.reused = True
        return v

    def check_all(self, step, step_no):
        for v, first, origin in self.values:
            now = observe(v)
            if now != first:
                return ("mutated: step #%d %r changed a value created at step "
                        "#%d: %s" % (step_no, step, origin,
                                     describe_change(first, now)))
        return None

    def do(self, step, step_no):
        """Run one step; returns a failure message or None."""
        D = M.lib()
        kind = step["do"]
        msg = None
        if kind == "mode":
            self.mode = step["mode"]
            D.Calendar.default().set_mode(self.mode)
            return None
        if kind == "new":
            try:
                what = step["what"]
                if what == "tp":
                    v = D.TimePoint(**step["kw"])
                elif what == "dur":
                    v = D.Duration(**step["kw"])
                elif what == "tz":
                    v = D.TimeZone(hours=step["kw"][0], minutes=step["kw"][1])
                else:
                    extra = None
                    if step.get("limit"):
                        key = ("min_point" if step["spec"]["fmt"] == 4 and
                               step["spec"]["reps"] is None else "max_point")
                        extra = {key: D.TimePoint(**step["limit"])}
                    v = RC.build(step["spec"], extra)
            except Exception:       # noqa: BLE001 - not constructible: skip
                return None
            msg = self.add(v, step_no)
            if what == "rec" and msg is None:
                # the recurrence's own parts are values too
                msg = self.add([v.start_point, v.end_point, v.duration,
                                v.min_point, v.max_point], step_no)
            return msg or self.check_all(step, step_no)
        # an operation
        res = None
        self.nops += 1
        try:
            with watchdog(5.0), fake_system_zone((330, 390, 1, 1)):
                res = self.apply(step)
        except Hang:
            res = None
        except Exception:           # noqa: BLE001 - "no result"
            res = None
        TP, DU, TZ, TR = lib_types()
        flat = res if isinstance(res, (list, tuple)) else [res]
        for x in flat:
            if isinstance(x, (TP, DU, TR)) and id(x) in self.ids:
                self.self_returns += 1
        msg = self.add(res, step_no, is_result=True)
        return msg or self.check_all(step, step_no)

    def apply(self, step):
        D = M.lib()
        op = step["op"]
        a, b, n = step.get("a", 0), step.get("b", 0), step.get("n", 0)
        P = lambda i: self.pick("tp", i)        # noqa: E731
        Du = lambda i: self.pick("dur", i)      # noqa: E731
        Z = lambda i: self.pick("tz", i)        # noqa: E731
        Rc = lambda i: self.pick("rec", i)      # noqa: E731
        cmpops = {"lt": lambda x, y: x < y, "le": lambda x, y: x <= y,
                  "eq": lambda x, y: x == y, "ne": lambda x, y: x != y,
                  "gt": lambda x, y: x > y, "ge": lambda x, y: x >= y}
        if op == "tp+dur":
            return P(a) + Du(b)
        if op == "dur+tp":
            return Du(b) + P(a)
        if op == "tp-dur":
            return P(a) - Du(b)
        if op == "tp-tp":
            return P(a) - P(b)
        if op in ("tp+tp", "trunc+full"):   # truncated + full, either order
            x, y = P(a), P(b)
            if op == "trunc+full":
                # operands chosen by kind, so that the pair is always one
                # truncated and one full point
                pool = self.pools["tp"]
                ts = [q for q in pool if q.truncated]
                fs = [q for q in pool if not q.truncated]
                if not ts or not fs:
                    return None
                x, y = ts[a % len(ts)], fs[b % len(fs)]
                for q in (x, y):
                    if id(q) in self.result_ids:
                        self.reused = True
                if n % 2:
                    x, y = y, x
            timed = any(q is not None and q.truncated and TIME_FIELDS &
                        set(q.get_truncated_properties()) for q in (x, y))
            for q in (x, y):
                if timed and q is not None and not q.truncated and \
                        fractional_time(q):
                    # a time-of-day field is stepped in whole seconds and
                    # never meets a fractional one (outside C20's domain)
                    return None
            return x + y
        if op.startswith("tpcmp/"):
            return cmpops[op[6:]](P(a), P(b))
        if op == "tp_hash":
            return hash(P(a))
        if op == "tp_str":
            x = P(a)
            return str(x), repr(x)
        if op == "tp_strftime":
            return P(a).strftime(FORMATS[n % 3])
        if op == "tp_dump":
            return D.dumpers.TimePointDumper().dump(P(a), FORMATS[n % len(FORMATS)])
        if op == "tp_to_tz":
            return P(a).to_time_zone(Z(b))
        if op == "tp_conv":
            x = P(a)
            return [x.to_utc, x.to_local_time_zone, x.to_calendar_date,
                    x.to_ordinal_date, x.to_week_date,
                    x.to_hour_minute_second][n % 6]()
        if op == "tp_get":
            x = P(a)
            return [x.get_calendar_date, x.get_ordinal_date, x.get_week_date,
                    x.get_hour_minute_second, x.get_second_of_day, x.get_props,
                    x.get_truncated_properties, x.get_time_zone_utc,
                    x.get_largest_truncated_property_name,
                    x.get_smallest_missing_property_name,
                    x.get_is_calendar_date][n % 11]()
        if op == "tp_prop":
            x = P(a)
            name = ["year", "month_of_year", "week_of_year", "day_of_year",
                    "day_of_month", "day_of_week", "hour_of_day",
                    "minute_of_hour", "second_of_minute", "time_zone",
                    "seconds_since_unix_epoch", "year_sign", "century",
                    "expanded_year_digits", "time_zone_sign",
                    "second_of_minute_decimal_string", "truncated",
                    "dump_format"][n % 18]
            return getattr(x, name)
        if op == "tp_tzoffset":
            return P(a).get_time_zone_offset(P(b))
        if op == "tp_add_months":
            return P(a).add_months(n % 27 - 13)
        if op == "tp_add_truncated":
            x, t = P(a), P(b)
            props = t.get_truncated_properties() if t is not None else None
            if not props:
                props = [{"hour_of_day": 6}, {"day_of_month": 31},
                         {"day_of_week": 1, "minute_of_hour": 30},
                         {"day_of_year": 366}][n % 4]
            if TIME_FIELDS & set(props) and fractional_time(x):
                return None
            return x.add_truncated(**props)
        if op == "dur+dur":
            return Du(a) + Du(b)
        if op == "dur-dur":
            return Du(a) - Du(b)
        if op == "dur*n":
            k = n % 9 - 4
            return [Du(a) * k, k * Du(a)]
        if op == "dur//n":
            return Du(a) // (n % 5 + 1)
        if op == "dur_abs":
            return abs(Du(a))
        if op.startswith("durcmp/"):
            return cmpops[op[7:]](Du(a), Du(b))
        if op == "dur_misc":
            x = Du(a)
            return [hash(x), str(x), repr(x), bool(x), x.is_exact(),
                    x.get_days_and_seconds(), x.get_seconds(),
                    x.get_is_in_weeks(), x.to_days(),
                    x.to_weeks() if not isinstance(x, D.TimeZone) else None,
                    x.years, x.days, x.weeks, x.seconds]
        if op == "tz_misc":
            x = Z(a)
            return [hash(x), str(x), x.unknown, x.hours, x.minutes,
                    x - Z(b), x + Z(b), x == Z(b), x.get_seconds()]
        if op == "rec_iter":
            return list(itertools.islice(iter(Rc(a)), n % 6 + 1))
        if op == "rec_query":
            r, p = Rc(a), P(b)
            which = n % 5
            if which == 0:
                return r.get_is_valid(p)
            if which == 1:
                return r.get_next(p)
            if which == 2:
                return r.get_prev(p)
            if which == 3:
                return r.get_first_after(p)
            return r[n % 4]
        if op == "rec_member_query":
            r = Rc(a)
            pts = list(itertools.islice(iter(r), 3))
            p = pts[n % len(pts)]
            return [p, r.get_is_valid(p), r.get_next(p), r.get_prev(p),
                    r.get_first_after(p) if r.start_point is not None else None]
        if op == "rec_shift":
            r, d = Rc(a), Du(b)
            return [r + d, d + r, r - d][n % 3]
        if op == "iop":
            # augmented assignment must rebind, never update in place
            import operator
            which = n % 7
            if which == 0:
                return operator.iadd(P(a), Du(b))
            if which == 1:
                return operator.isub(P(a), Du(b))
            if which == 2:
                return operator.iadd(Du(a), Du(b))
            if which == 3:
                return operator.isub(Du(a), Du(b))
            if which == 4:
                return operator.imul(Du(a), b % 7 - 3)
            if which == 5:
                return operator.iadd(Rc(a), Du(b))
            return operator.isub(Rc(a), Du(b))
        if op == "rec_ctor":
            # a recurrence built from values already in the pools
            which = n % 8
            reps = [None, 1, 2, 3, 5][b % 5]
            if which in (0, 6, 7):
                x, y = P(a), P(b)
                if y < x:       # start / second point in timeline order
                    x, y = y, x
                return D.TimeRecurrence(repetitions=reps, start_point=x,
                                        end_point=y)
            if which == 1:
                return D.TimeRecurrence(repetitions=reps, start_point=P(a),
                                        duration=Du(b))
            if which == 2:
                return D.TimeRecurrence(repetitions=reps, duration=Du(b),
                                        end_point=P(a))
            if which == 3:
                return D.TimeRecurrence(repetitions=reps, start_point=P(a),
                                        duration=Du(b), max_point=P(b))
            if which == 4:
                return D.TimeRecurrence(repetitions=reps, duration=Du(b),
                                        end_point=P(a), min_point=P(b))
            return D.TimeRecurrence(repetitions=reps, start_point=P(a),
                                    end_point=P(a + 1), min_point=P(b),
                                    max_point=P(b + 1))
        if op == "rec_misc":
            r = Rc(a)
            return [hash(r), str(r), repr(r), r == Rc(b), r.start_point,
                    r.end_point, r.duration, r.repetitions, r.format_number,
                    r.min_point, r.max_point]
        raise KeyError(op)


OPS = ["tp+dur", "dur+tp", "tp-dur", "tp-tp", "tp+tp", "trunc+full", "tpcmp/lt", "tpcmp/le",
       "tpcmp/eq", "tpcmp/ne", "tpcmp/gt", "tpcmp/ge", "tp_hash", "tp_str",
       "tp_strftime", "tp_dump", "tp_to_tz", "tp_conv", "tp_get", "tp_prop",
       "tp_tzoffset", "tp_add_months", "tp_add_truncated", "dur+dur", "dur-dur",
       "dur*n", "dur//n", "dur_abs", "durcmp/lt", "durcmp/eq", "durcmp/ge",
       "dur_misc", "tz_misc", "rec_iter", "rec_query", "rec_member_query",
       "rec_shift", "rec_misc", "iop", "rec_ctor"]


def check_case(case):
    """Replay a history from scratch."""
    it = Interp()
    fail = None
    try:
        for i, step in enumerate(case["history"]):
            fail = it.do(step, i)
            if fail:
                break
    except Exception as e:      # noqa: BLE001
        fail = "exception: harness %s: %s" % (type(e).__name__, e)
    finally:
        M.lib().Calendar.default().set_mode("gregorian")
    return Outcome(fail=fail, nontrivial=it.nops >= 5 and it.reused,
                   weight=max(it.nops, 1), classes=["replayed_history"])


TIME_FIELDS = {"hour_of_day", "minute_of_hour", "second_of_minute"}


def fractional_time(q):
    return not all(v is None or float(v).is_integer() for v in (
        q.hour_of_day, q.minute_of_hour, q.second_of_minute))


YEARS = st.one_of(st.integers(1998, 2004),
                  st.sampled_from([1999, 2000, 2003, 2004, 2000, 2004, 0, 1, 9999]))


@st.composite
def st_trunc_kw(draw):
    from vlib.checks import c20
    t = {}
    fields = draw(st.sampled_from(["h", "hm", "hms", "m", "s", "none", "none"]))
    if "h" in fields:
        t["h"] = draw(st.integers(0, 23))
    if "m" in fields:
        t["m"] = draw(st.integers(0, 59))
    if "s" in fields:
        t["s"] = draw(st.integers(0, 59))
    d = draw(st.sampled_from(["dom", "doy", "wd", "week+wd", "none"]))
    if d == "dom":
        t["dom"] = draw(st.integers(1, 30))
    elif d == "doy":
        t["doy"] = draw(st.integers(1, 360))
    elif d == "wd":
        t["wd"] = draw(st.integers(1, 7))
    elif d == "week+wd":
        t["week"], t["wd"] = draw(st.integers(1, 51)), draw(st.integers(1, 7))
    if not t:
        t["h"] = 6
    if draw(st.booleans()):
        t["tz"] = list(draw(G.st_tz()))
    return c20.t_kwargs(t)


def make_machine(ctx):
    class ValueMachine(RuleBasedStateMachine):
        def __init__(self):
            super().__init__()
            self.it = Interp()
            self.steps = []

        def _do(self, step):
            if ctx.shrink_expired():
                return
            self.steps.append(step)
            try:
                # the operation itself is cut after 5 s (no result); observing
                # every value afterwards takes milliseconds - if that does not
                # come back either (a value left half-updated loops in str /
                # hash), the step is reported instead of spinning for ever
                with watchdog(ctx.case_timeout_s):
                    fail = self.it.do(step, len(self.steps) - 1)
            except Hang as e:
                fail = "hang: step #%d %r: observing the values afterwards " \
                       "did not finish: %s" % (len(self.steps) - 1, step, e)
            if step["do"] == "op":
                ctx.classes["op/" + step["op"].split("/")[0]] += 1
            if fail:
                ctx.note_failure({"history": list(self.steps)}, fail)
                raise Violation(fail)

        @initialize(mode=G.MODE_WEIGHTED, data=st.data())
        def start(self, mode, data):
            cm = R.canon(mode)
            self._do({"do": "mode", "mode": mode})
            for k in range(3):
                kw = data.draw(G.st_point_kw(cm, years=YEARS))
                if k == 1:
                    kw["dump_format"] = data.draw(st.sampled_from(FORMATS[3:]))
                self._do({"do": "new", "what": "tp", "kw": kw})
            self._do({"do": "new", "what": "tp", "kw": data.draw(st_trunc_kw())})
            # always in the pool: a date-only truncated point without a zone
            # and a full point with decimal seconds (the pair whose addition
            # works on the full operand most directly)
            self._do({"do": "new", "what": "tp", "kw": {
                "truncated": True, "day_of_month": data.draw(st.integers(1, 28))}})
            self._do({"do": "new", "what": "tp", "kw": data.draw(
                G.st_point_kw(cm, years=YEARS, forms=("hms,tt",)))})
            self._do({"do": "new", "what": "dur", "kw": data.draw(
                G.st_exact_duration_kw(max_days=400, signs="any"))})
            self._do({"do": "new", "what": "dur", "kw": data.draw(
                G.st_nominal_kw(max_years=3, max_months=14))})
            self._do({"do": "new", "what": "tz", "kw": list(data.draw(G.st_tz()))})
            _, spec = data.draw(RC.st_spec(mode=mode, max_reps=6))
            for k in ("start", "second", "end"):
                if spec.get(k):
                    spec[k] = dict(spec[k], year=2000 + spec[k]["year"] % 3)
                    if "week_of_year" in spec[k]:
                        spec[k]["week_of_year"] = min(spec[k]["week_of_year"], 51)
                    if "day_of_year" in spec[k]:
                        spec[k]["day_of_year"] = min(spec[k]["day_of_year"], 360)
                    if "day_of_month" in spec[k]:
                        spec[k]["day_of_month"] = min(spec[k]["day_of_month"], 28)
            if spec["fmt"] != 1 and RC.is_exact(spec["dur"]) and \
                    0 < M.dkw_len(spec["dur"]) < 6 * 3600:
                spec["dur"] = {"hours": 6}
            self._do({"do": "new", "what": "rec", "spec": dict(spec, via="ctor")})

        @rule(data=st.data(), what=st.sampled_from(["tp", "tp24", "trunc", "dur",
                                                    "tz"]))
        def new(self, data, what):
            cm = R.canon(self.it.mode)
            if what == "tp":
                step = {"do": "new", "what": "tp",
                        "kw": data.draw(G.st_point_kw(cm, years=YEARS))}
                if data.draw(st.integers(0, 3)) == 0:
                    step["kw"]["dump_format"] = data.draw(
                        st.sampled_from(FORMATS[3:]))
            elif what == "tp24":
                step = {"do": "new", "what": "tp", "kw": data.draw(
                    G.st_point_kw(cm, years=YEARS, forms=("24",),
                                  tz=data.draw(st.sampled_from(
                                      [(0, 0), (0, 0), (1, 0), (-5, -30)]))))}
            elif what == "trunc":
                step = {"do": "new", "what": "tp", "kw": data.draw(st_trunc_kw())}
            elif what == "dur":
                step = {"do": "new", "what": "dur", "kw": data.draw(st.one_of(
                    G.st_exact_duration_kw(max_days=400, signs="any"),
                    G.st_nominal_kw(max_years=3, max_months=14)))}
            else:
                step = {"do": "new", "what": "tz", "kw": list(data.draw(G.st_tz()))}
            self._do(step)

        @rule(data=st.data())
        def new_limited_rec(self, data):
            # a recurrence cut by the constructor's max_point / min_point, a
            # year or so past its anchor
            _, spec = data.draw(RC.st_spec(mode=self.it.mode, max_reps=6))
            anchor = spec.get("start") or spec.get("end")
            down = spec["fmt"] == 4 and spec["reps"] is None
            limit = dict(anchor, year=anchor["year"] + (-1 if down else 1))
            for k, top in (("week_of_year", 51), ("day_of_year", 360),
                           ("day_of_month", 28)):
                if k in limit:
                    limit[k] = min(limit[k], top)
            if limit.get("hour_of_day") == 24:
                limit["hour_of_day"] = 0
            self._do({"do": "new", "what": "rec",
                      "spec": dict(spec, via="ctor"), "limit": limit})

        @rule(op=st.sampled_from(OPS), a=st.integers(0, 60), b=st.integers(0, 60),
              n=st.integers(0, 60))
        def op(self, op, a, b, n):
            self._do({"do": "op", "op": op, "a": a, "b": b, "n": n})

        def teardown(self):
            M.lib().Calendar.default().set_mode("gregorian")
            if self.steps and not ctx.shrink_expired():
                it = self.it
                ctx.count({"history": self.steps}, Outcome(
                    nontrivial=it.nops >= 5 and it.reused, weight=max(it.nops, 1),
                    classes=["history"] + (["history/result_reused"]
                                           if it.reused else [])))
                ctx.extra["self_returning_calls"] = ctx.extra.get(
                    "self_returning_calls", 0) + it.self_returns
                ctx.extra["values_tracked"] = ctx.extra.get(
                    "values_tracked", 0) + len(it.values)
    return ValueMachine


def run_shard(ctx):
    quick = ctx.tier == "quick"
    ctx.machine(make_machine(ctx), max_examples=60 if quick else 1500,
                steps=40 if quick else 50)
