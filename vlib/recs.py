"""Recurrence specs: generation, construction, text rendering, reference series.

A spec is JSON: {"fmt": 1|3|4, "reps": n|None, "start": kw|None,
"second": kw|None (fmt 1), "end": kw|None (fmt 4), "dur": dkw|None,
"via": "ctor"|"parse"}.  All fields are whole numbers (no decimals).
"""
from fractions import Fraction

from hypothesis import strategies as st

from vlib import gen as G
from vlib import model as M
from vlib import refcal as R
from vlib.checks import c05


# ---------------------------------------------------------------------------
# text rendering (own encoder; always extended complete form with a zone)

def render_point(kw):
    y = kw["year"]
    if not 0 <= y <= 9999:
        ys = "%s%06d" % ("-" if y < 0 else "+", abs(y))
    else:
        ys = "%04d" % y
    rep = M.kw_rep(kw)
    if rep == "c":
        d = "%s-%02d-%02d" % (ys, kw["month_of_year"], kw["day_of_month"])
    elif rep == "o":
        d = "%s-%03d" % (ys, kw["day_of_year"])
    else:
        d = "%s-W%02d-%d" % (ys, kw["week_of_year"], kw["day_of_week"])
    t = "T%02d:%02d:%02d" % (kw.get("hour_of_day", 0), kw.get("minute_of_hour", 0),
                             kw.get("second_of_minute", 0))
    h, m = kw["time_zone_hour"], kw["time_zone_minute"]
    z = "Z" if (h, m) == (0, 0) else "%s%02d:%02d" % (
        "-" if (h < 0 or m < 0) else "+", abs(h), abs(m))
    return d + t + z


def render_duration(dkw):
    if "weeks" in dkw:
        return "P%dW" % dkw["weeks"]
    s = "P"
    for k, u in (("years", "Y"), ("months", "M"), ("days", "D")):
        if dkw.get(k):
            s += "%d%s" % (dkw[k], u)
    t = ""
    for k, u in (("hours", "H"), ("minutes", "M"), ("seconds", "S")):
        if dkw.get(k):
            t += "%d%s" % (dkw[k], u)
    if t:
        s += "T" + t
    return s if s != "P" else "P0Y"


def render(spec):
    pre = "R%s/" % ("" if spec["reps"] is None else spec["reps"])
    if spec["fmt"] == 1:
        return pre + render_point(spec["start"]) + "/" + render_point(spec["second"])
    if spec["fmt"] == 3:
        return pre + render_point(spec["start"]) + "/" + render_duration(spec["dur"])
    return pre + render_duration(spec["dur"]) + "/" + render_point(spec["end"])


_PARSER = []


def long_lived_parser():
    """One TimeRecurrenceParser per process, as an application would hold it:
    it survives every calendar-mode switch between cases."""
    if not _PARSER:
        from metomi.isodatetime import parsers
        _PARSER.append(parsers.TimeRecurrenceParser())
    return _PARSER[0]


def build(spec, extra=None):
    """Library TimeRecurrence for the spec (constructor or parser); extra =
    further constructor keywords (min_point / max_point), constructor only."""
    D = M.lib()
    if spec.get("via") == "parse" and not extra:
        return long_lived_parser().parse(render(spec))
    kw = {"repetitions": spec["reps"]}
    if spec["fmt"] == 1:
        kw["start_point"] = M.make_point(spec["start"])
        kw["end_point"] = M.make_point(spec["second"])
    elif spec["fmt"] == 3:
        kw["start_point"] = M.make_point(spec["start"])
        kw["duration"] = M.make_duration(spec["dur"])
    else:
        kw["end_point"] = M.make_point(spec["end"])
        kw["duration"] = M.make_duration(spec["dur"])
    kw.update(extra or {})
    return D.TimeRecurrence(**kw)


# ---------------------------------------------------------------------------
# reference series

def ref_step(cm, kw, dkw, sign):
    """kw of (point +- duration) per the statement's rules (vlib.refcal)."""
    date, sod, _, _ = c05.expected(cm, kw, dkw, sign)
    rep = M.kw_rep(kw)
    out = {"year": date[0]}
    if rep == "c":
        out["month_of_year"], out["day_of_month"] = date[1], date[2]
    elif rep == "o":
        out["day_of_year"] = date[1]
    else:
        out["week_of_year"], out["day_of_week"] = date[1], date[2]
    sod = int(sod)
    out["hour_of_day"], r = divmod(sod, 3600)
    out["minute_of_hour"], out["second_of_minute"] = divmod(r, 60)
    out["time_zone_hour"] = kw["time_zone_hour"]
    out["time_zone_minute"] = kw["time_zone_minute"]
    out["num_expanded_year_digits"] = kw.get("num_expanded_year_digits", 0)
    return out


def normalise24(cm, kw):
    """The same instant with 24:00 spelled as 00:00 of the next day."""
    if kw.get("hour_of_day") != 24:
        return kw
    return ref_step(cm, dict(kw, hour_of_day=0), {"days": 1}, 1)


def scale(dkw, n):
    return {k: v * n for k, v in dkw.items()}


def is_exact(dkw):
    return not dkw.get("years") and not dkw.get("months")


def is_zero(dkw):
    return dkw is None or not any(dkw.values())


def spec_interval(cm, spec):
    """Interval as duration kwargs (fmt 1: exact difference of the points)."""
    if spec["fmt"] != 1:
        return spec["dur"]
    diff = M.kw_instant(cm, spec["second"]) - M.kw_instant(cm, spec["start"])
    return {"seconds": int(diff)}


def ref_series(cm, spec, k):
    """First k expected points (kw dicts, in iteration order) and the expected
    total count (None = unbounded)."""
    n = spec["reps"]
    d = spec_interval(cm, spec)
    if spec["fmt"] in (1, 3):
        anchor = normalise24(cm, spec["start"]) if not is_zero(d) and n != 1 \
            else spec["start"]
        if n == 1 or is_zero(d):
            return [spec["start"]], 1
        pts = [anchor]
        while len(pts) < (k if n is None else min(k, n)):
            pts.append(ref_step(cm, pts[-1], d, 1))
        return pts, n
    # fmt 4
    if n == 1 or is_zero(d):
        return [spec["end"]], 1
    anchor = normalise24(cm, spec["end"])
    back = [anchor]
    limit = k if n is None else n
    while len(back) < limit:
        back.append(ref_step(cm, back[-1], d, -1))
    if n is None:
        return back, None           # iterates downward from the end
    return back[::-1][:k], n         # bounded: ascending, includes the end


def f1_model(cm, spec, k):
    """Defect model of known finding F1 (bounded, nominal interval): the far
    anchor is derived with ONE multiplied addition and the series is the
    forward walk from the start while <= the end."""
    n = spec["reps"]
    d = spec["dur"]
    if spec["fmt"] == 3:
        start = normalise24(cm, spec["start"])
        end = ref_step(cm, start, scale(d, n - 1), 1)
    else:
        end = normalise24(cm, spec["end"])
        start = ref_step(cm, end, scale(d, n - 1), -1)
    pts = []
    cur = start
    end_i = M.kw_instant(cm, end)
    while M.kw_instant(cm, cur) <= end_i and len(pts) < k + 5:
        pts.append(cur)
        cur = ref_step(cm, cur, d, 1)
    return pts


# ---------------------------------------------------------------------------
# generation

INT_FORMS_NO24 = ("hms",)


@st.composite
def st_interval(draw, kind=None):
    kind = kind or draw(st.sampled_from(["exact", "exact", "exact", "nominal",
                                         "nominal", "zero"]))
    if kind == "zero":
        return draw(st.sampled_from([{"years": 0}, {"days": 0}, {"seconds": 0},
                                     {"hours": 0, "minutes": 0}]))
    if kind == "exact":
        d = draw(G.st_exact_duration_kw(
            max_days=draw(st.sampled_from([1, 3, 40, 400, 5000])), signs="pos"))
        if not any(d.values()):
            d = {"hours": 1}
        return d
    d = {}
    k = draw(st.integers(0, 2))
    if k in (0, 2):
        d["months"] = draw(st.sampled_from([1, 1, 2, 3, 6, 11, 12, 13, 18]))
    if k in (1, 2):
        d["years"] = draw(st.sampled_from([1, 1, 2, 4, 10, 100]))
    if draw(st.sampled_from([False, False, True])):
        d.update(draw(st.sampled_from([{"days": 1}, {"days": 2}, {"days": 30},
                                       {"hours": 12}, {"days": 1, "hours": 1},
                                       {"seconds": 1}, {"minutes": 90}])))
    return d


@st.composite
def st_spec(draw, interval_kind=None, max_reps=40, allow24=True, mode=None):
    mode = mode or draw(G.MODE_WEIGHTED)
    cm = R.canon(mode)
    fmt = draw(st.sampled_from([1, 3, 3, 4, 4]))
    reps = draw(st.one_of(st.none(), st.sampled_from([1, 2, 2, 3, 5]),
                          st.integers(1, max_reps)))
    if fmt == 1:
        d = draw(st_interval("exact" if draw(st.integers(0, 5)) else "zero"))
    else:
        d = draw(st_interval(interval_kind))
    # 24:00 anchors only with exact intervals (the statement does not define
    # how end-of-day interacts with month/year clamping; cf. C05)
    forms = G.INT_FORMS if (allow24 and is_exact(d)) else INT_FORMS_NO24
    anchor = draw(G.st_point_kw(cm, forms=forms))
    spec = {"fmt": fmt, "reps": reps, "via": draw(st.sampled_from(["ctor", "parse"]))}
    if fmt == 1:
        inst = M.kw_instant(cm, anchor) + M.dkw_len(d)
        spec["start"] = anchor
        spec["second"] = G.respell(draw, cm, int(inst), allow24=allow24)
        if reps is None and is_zero(d):
            pass
    else:
        spec["dur"] = d
        spec["start" if fmt == 3 else "end"] = anchor
    return mode, spec


def printable(kw):
    y = kw["year"]
    return 0 <= y <= 9999 or kw.get("num_expanded_year_digits", 0) > 0
