"""Independent reference calendar + instant model.

Imports nothing from the library under test.  Everything is closed-form
integer arithmetic on a *day number* (days since 0000-01-01 of the mode's
proleptic calendar, negative before), valid for every integer year, so year 0
and negative years need no special case.

Modes (canonical names): gregorian, 360day, 365day, 366day.
"""
from fractions import Fraction

ML365 = (31, 28, 31, 30, 31, 30, 31, 31, 30, 31, 30, 31)
ML366 = (31, 29, 31, 30, 31, 30, 31, 31, 30, 31, 30, 31)
ML360 = (30,) * 12

CANON_MODES = ("gregorian", "360day", "365day", "366day")
MODE_SPELLINGS = ("gregorian", "360day", "360_day", "365day", "365_day",
                  "366day", "366_day")


def canon(mode):
    return mode.lower().replace("_", "")


def is_leap(mode, y):
    """True when year y has a leap day *in this mode's month table*."""
    m = canon(mode)
    if m == "gregorian":
        return y % 4 == 0 and (y % 100 != 0 or y % 400 == 0)
    return False


def mlens(mode, y):
    m = canon(mode)
    if m == "360day":
        return ML360
    if m == "365day":
        return ML365
    if m == "366day":
        return ML366
    return ML366 if is_leap(mode, y) else ML365


def ylen(mode, y):
    m = canon(mode)
    if m == "360day":
        return 360
    if m == "365day":
        return 365
    if m == "366day":
        return 366
    return 366 if is_leap(mode, y) else 365


def days_before_year(mode, y):
    """Days from 0000-01-01 to y-01-01 (negative for y < 0)."""
    m = canon(mode)
    if m == "360day":
        return 360 * y
    if m == "365day":
        return 365 * y
    if m == "366day":
        return 366 * y
    # number of leap years k with 0 <= k < y (signed count for y < 0):
    # multiples of 4 minus multiples of 100 plus multiples of 400 in [0, y)
    leaps = (y + 3) // 4 - (y + 99) // 100 + (y + 399) // 400
    return 365 * y + leaps


def dn_from_cal(mode, y, mo, d):
    return days_before_year(mode, y) + sum(mlens(mode, y)[:mo - 1]) + d - 1


def dn_from_ord(mode, y, doy):
    return days_before_year(mode, y) + doy - 1


def year_of_dn(mode, dn):
    m = canon(mode)
    if m != "gregorian":
        return dn // {"360day": 360, "365day": 365, "366day": 366}[m]
    y = (dn * 400) // 146097
    while days_before_year(mode, y) > dn:
        y -= 1
    while days_before_year(mode, y + 1) <= dn:
        y += 1
    return y


def ord_from_dn(mode, dn):
    y = year_of_dn(mode, dn)
    return y, dn - days_before_year(mode, y) + 1


def cal_from_dn(mode, dn):
    y, doy = ord_from_dn(mode, dn)
    for i, n in enumerate(mlens(mode, y)):
        if doy <= n:
            return y, i + 1, doy
        doy -= n
    raise AssertionError("unreachable")


# Monday 2000-01-03 anchors the weekday in every mode (the library's
# documented reference).
def weekday(mode, dn):
    return (dn - dn_from_cal(mode, 2000, 1, 3)) % 7 + 1


def weekyear_start(mode, wy):
    """Day number of the Monday of the week containing 4 January of wy."""
    jan4 = dn_from_cal(mode, wy, 1, 4)
    return jan4 - (weekday(mode, jan4) - 1)


def weeks_in_year(mode, wy):
    return (weekyear_start(mode, wy + 1) - weekyear_start(mode, wy)) // 7


def dn_from_week(mode, wy, w, d):
    return weekyear_start(mode, wy) + (w - 1) * 7 + d - 1


def week_from_dn(mode, dn):
    y = year_of_dn(mode, dn)
    for wy in (y + 1, y, y - 1):
        s = weekyear_start(mode, wy)
        if s <= dn:
            k = dn - s
            return wy, k // 7 + 1, k % 7 + 1
    raise AssertionError("unreachable")


def valid_cal(mode, y, mo, d):
    return (isinstance(mo, int) and isinstance(d, int) and 1 <= mo <= 12 and
            1 <= d <= mlens(mode, y)[mo - 1])


def valid_ord(mode, y, doy):
    return isinstance(doy, int) and 1 <= doy <= ylen(mode, y)


def valid_week(mode, wy, w, d):
    return (isinstance(w, int) and isinstance(d, int) and
            1 <= w <= weeks_in_year(mode, wy) and 1 <= d <= 7)


def days_in_year_range(mode, a, b):
    """Days in years a..b inclusive; 0 when a > b."""
    if a > b:
        return 0
    return days_before_year(mode, b + 1) - days_before_year(mode, a)


def add_months_cal(mode, y, mo, d, n):
    """n single-month steps, each clamping to the target month's length."""
    step = 1 if n > 0 else -1
    for _ in range(abs(n)):
        mo += step
        if mo > 12:
            mo -= 12
            y += 1
        elif mo < 1:
            mo += 12
            y -= 1
        d = min(d, mlens(mode, y)[mo - 1])
    return y, mo, d


UNIX_EPOCH_DN = {m: dn_from_cal(m, 1970, 1, 1) for m in CANON_MODES}


def self_test():
    """Oracle for the oracle: compare the gregorian model with datetime."""
    import datetime
    base = datetime.date(1, 1, 1).toordinal() - dn_from_cal("gregorian", 1, 1, 1)
    n = 0
    for y in list(range(1, 420)) + list(range(1580, 2110)) + list(
            range(9590, 10000)):
        for doy in (1, 2, 3, 4, 5, 6, 7, 59, 60, 61, ylen("gregorian", y) - 1,
                    ylen("gregorian", y)):
            dn = dn_from_ord("gregorian", y, doy)
            d = datetime.date.fromordinal(dn + base)
            assert (d.year, d.month, d.day) == cal_from_dn("gregorian", dn)
            iso = d.isocalendar()
            assert tuple(iso) == week_from_dn("gregorian", dn), (d, iso)
            assert d.timetuple().tm_yday == doy
            assert dn_from_week("gregorian", *week_from_dn("gregorian", dn)) == dn
            assert dn_from_cal("gregorian", *cal_from_dn("gregorian", dn)) == dn
            n += 1
    return n


# ---------------------------------------------------------------------------
# instants


def sod_from_fields(hour, minute, second):
    """Exact second-of-day from stored fields (ints or floats; None = absent)."""
    s = Fraction(hour) * 3600
    if minute is not None:
        s += Fraction(minute) * 60
    if second is not None:
        s += Fraction(second)
    return s


def instant(dn, sod, tz_h, tz_m):
    return Fraction(dn) * 86400 + sod - (tz_h * 3600 + tz_m * 60)
