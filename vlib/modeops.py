"""Calendar-dependent computations as JSON ops, for C15.

``execute(op)`` is run both in the process under test (after arbitrary mode
switches) and in single-mode worker processes; results are plain JSON values
so they can be compared across processes.  It never changes the mode.
"""
import itertools


def _lib():
    from metomi.isodatetime import data
    return data


_LONG_LIVED = {}


def _parser(kind):
    """Long-lived parser objects, as an application would hold them: they
    survive every mode switch of the process."""
    if kind not in _LONG_LIVED:
        from metomi.isodatetime import parsers
        _LONG_LIVED[kind] = {
            "rec": lambda: parsers.TimeRecurrenceParser(),
            "tp": lambda: parsers.TimePointParser(assumed_time_zone=(0, 0)),
            "dur": lambda: parsers.DurationParser(),
        }[kind]()
    return _LONG_LIVED[kind]


def _tp(D, f):
    return D.TimePoint(num_expanded_year_digits=2, **f)


def _jsonable(x):
    if isinstance(x, (tuple, list)):
        return [_jsonable(v) for v in x]
    return x


def execute(op):
    """-> JSON value, or {"exc": "TypeName"} when the library raises."""
    D = _lib()
    try:
        kind = op["op"]
        if kind == "fn":
            return _jsonable(getattr(D, op["name"])(*op["args"]))
        if kind == "iter_months_days":
            days = list(D.iter_months_days(*op["args"], **op.get("kw", {})))
            return [len(days), _jsonable(days[:2]), _jsonable(days[-2:]),
                    sum(m * 31 + d for m, d in days)]
        if kind == "month_table":
            y = op["y"]
            lens = [D.get_days_in_month(mo, y) for mo in range(1, 13)]
            accepted = []
            for mo in (2, 4, 12):
                for d in (28, 29, 30, 31):
                    try:
                        _tp(D, {"year": y, "month_of_year": mo, "day_of_month": d})
                        accepted.append([mo, d])
                    except ValueError:
                        pass
            return [lens, D.get_days_in_year(y), accepted]
        if kind == "add":
            p = _tp(D, op["p"])
            return str(p + D.Duration(**op["d"]))
        if kind == "add_trunc":
            t = D.TimePoint(truncated=True, day_of_month=op["dom"])
            return str(_tp(D, op["p"]) + t)
        if kind == "add_months":
            return str(_tp(D, op["p"]).add_months(op["n"]))
        if kind == "sub":
            d = _tp(D, op["a"]) - _tp(D, op["b"])
            return [d.days, d.hours, d.minutes, d.seconds, str(d)]
        if kind == "views":
            p = _tp(D, op["p"])
            return [_jsonable(p.get_calendar_date()),
                    _jsonable(p.get_ordinal_date()),
                    _jsonable(p.get_week_date()),
                    str(p.to_week_date()), str(p.to_ordinal_date()),
                    str(p.to_calendar_date())]
        if kind == "valid":
            return str(_tp(D, op["p"]))
        if kind == "cmp":
            a, b = _tp(D, op["a"]), _tp(D, op["b"])
            return [a < b, a == b, hash(a) == hash(b)]
        if kind == "dur_cmp":
            a, b = D.Duration(**op["a"]), D.Duration(**op["b"])
            return [a < b, a <= b, a > b, a == b,
                    _jsonable(a.get_days_and_seconds()), a.get_seconds()]
        if kind == "recur":
            r = _parser("rec").parse(op["text"])
            return [str(p) for p in itertools.islice(iter(r), op["k"])]
        if kind == "parse":
            p = _parser("tp").parse(op["text"])
            return [str(p), _jsonable(p.get_calendar_date()),
                    _jsonable(p.get_week_date())]
        if kind == "epoch":
            return str(D.get_timepoint_from_seconds_since_unix_epoch(
                op["n"], utc=True))
        if kind == "unix":
            return _tp(D, op["p"]).seconds_since_unix_epoch
        raise KeyError(kind)
    except Exception as e:      # noqa: BLE001 - the type is the result
        return {"exc": type(e).__name__}
