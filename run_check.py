#!/venv/bin/python
"""Entry point: run_check.py <ID> [--tier quick|thorough] [--replay FILE].

Exit 0: property held on everything explored.  Exit 1 + a line
``VIOLATION property=<id> replay=<path>``: violation.  Exit 2: harness error.
"""
import os
import sys

if os.environ.get("PYTHONHASHSEED") != "0":
    os.environ["PYTHONHASHSEED"] = "0"
    os.execv(sys.executable, [sys.executable] + sys.argv)

HERE = os.path.dirname(os.path.abspath(__file__))
sys.path.insert(0, HERE)
os.chdir(HERE)

from vlib import runner  # noqa: E402

if __name__ == "__main__":
    sys.exit(runner.main())
